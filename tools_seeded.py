#!/usr/bin/env python3
"""tools_seeded.py <mutant dir> [checks...] -- validate a seeded change and run checks against it.
<mutant dir> holds patch.diff and demo.py.  Everything happens in a scratch copy of /repo."""
import json, os, shutil, subprocess, sys, tempfile, time
d = os.path.abspath(sys.argv[1])
checks = sys.argv[2:]
scratch = tempfile.mkdtemp(prefix='seed_', dir='/tmp')
res = dict(dir=d)
try:
    subprocess.run('git -C /repo archive HEAD | tar -x -C %s' % scratch, shell=True, check=True)
    env = dict(os.environ, PYTHONPATH=scratch)
    demo = os.path.join(d, 'demo.py')
    if os.path.exists(demo):
        p = subprocess.run(['/venv/bin/python', demo], env=env, cwd=scratch, capture_output=True, text=True, timeout=900)
        res['demo_clean_exit'] = p.returncode
    ap = subprocess.run(['git', 'apply', '--unsafe-paths', '--directory=' + scratch, os.path.join(d, 'patch.diff')], cwd='/', capture_output=True, text=True)
    if ap.returncode != 0:
        ap = subprocess.run('cd %s && patch -p1 < %s' % (scratch, os.path.join(d, 'patch.diff')), shell=True, capture_output=True, text=True)
    res['patch_applied'] = ap.returncode == 0
    if not res['patch_applied']:
        res['patch_err'] = (ap.stderr or ap.stdout)[-300:]
    else:
        if os.path.exists(demo):
            p = subprocess.run(['/venv/bin/python', demo], env=env, cwd=scratch, capture_output=True, text=True, timeout=900)
            res['demo_mutant_exit'] = p.returncode
            res['demo_msg'] = (p.stderr or p.stdout).strip().splitlines()[-1][:200] if (p.stderr or p.stdout).strip() else ''
        if os.environ.get('RUN_TESTS', '1') == '1':
            p = subprocess.run(['/tmp/mutkit/check_tests.sh', scratch], capture_output=True, text=True)
            res['tests'] = p.stdout.strip().splitlines()[0] if p.stdout.strip() else 'no output'
        res['checks'] = {}
        for c in checks:
            t0 = time.time()
            e2 = dict(os.environ, VERIF_REPO=scratch, VERIF_EVIDENCE_DIR=scratch + '/evidence')
            p = subprocess.run([os.environ.get('VERIF_DIR', '/verif') + '/vcheck', c, '--tier', os.environ.get('TIER', 'quick')], env=e2, capture_output=True, text=True)
            viol = [l for l in p.stdout.splitlines() if l.startswith('violated obligation')]
            err = [l for l in p.stderr.splitlines() if 'HARNESS-ERROR' in l or 'Error' in l]
            res['checks'][c] = dict(exit=p.returncode, secs=int(time.time() - t0),
                                    first=(viol[0][20:160] if viol else (err[-1][:200] if err and p.returncode == 2 else '')))
finally:
    shutil.rmtree(scratch, ignore_errors=True)
print(json.dumps(res, indent=1))
