#!/bin/bash
# Builds /verif/.venv offline: a venv on /venv's interpreter that sees /venv's site-packages
# (numpy, gymnasium, yaml -- what /repo itself needs) plus z3-solver and cvc5 from the wheelhouse.
# Idempotent; every check calls it first because only committed files survive a restore.
set -e
HERE="$(cd "$(dirname "${BASH_SOURCE[0]}")" && pwd)"
VENV="$HERE/.venv"
LOCK="$HERE/.venv.lock"
exec 9>"$LOCK"
flock 9
if [ -x "$VENV/bin/python" ] && "$VENV/bin/python" -c "import z3, numpy, gymnasium, yaml" 2>/dev/null; then
    exit 0
fi
rm -rf "$VENV"
/venv/bin/python -m venv "$VENV"
SP="$("$VENV/bin/python" -c 'import sysconfig; print(sysconfig.get_paths()["purelib"])')"
echo "import site; site.addsitedir('/venv/lib/python3.12/site-packages')" > "$SP/zz_venv_overlay.pth"
PIP_NO_INDEX=1 "$VENV/bin/python" -m pip install -q --no-index --find-links /opt/veriftools/wheels z3-solver >/dev/null
PIP_NO_INDEX=1 "$VENV/bin/python" -m pip install -q --no-index --find-links /opt/veriftools/wheels cvc5 >/dev/null 2>&1 || true
"$VENV/bin/python" -c "import z3, numpy, gymnasium, yaml; print('verif venv ready: z3', z3.get_version_string())"
