#!/usr/bin/env python3
"""regenerates the seeded-changes table (DESIGN.md section 9) from seeded/*/meta.json"""
import json, os, re, glob
rows = []
for d in sorted(glob.glob('/verif/seeded/*/meta.json')):
    m = json.load(open(d))
    first = m['needs_to_manifest'].splitlines()[0].lstrip('# ').strip()
    first = re.sub(r'^C\d+_\d+\s*[-–—:]\s*', '', first)
    caught = ', '.join('%s (%s)' % (k, v.get('first_violated_obligation', '').strip().split(' ')[0][:48]) for k, v in m['checks_run'].items() if v['exit'] == 1) or '**not caught**'
    other = ', '.join('%s exit %d' % (k, v['exit']) for k, v in m['checks_run'].items() if v['exit'] != 1)
    rows.append('| %s | %s | %s | %s |' % (m['id'], first[:110].replace('|', '/'), caught, other))
table = '| id | seeded change (sub-agent\'s one-line description) | caught by (first violated obligation) | other checks run |\n|---|---|---|---|\n' + '\n'.join(rows)
p = '/verif/DESIGN.md'
s = open(p).read()
a, b = '<!-- SEEDED-TABLE-BEGIN -->', '<!-- SEEDED-TABLE-END -->'
if a in s:
    s = s[:s.index(a) + len(a)] + '\n' + table + '\n' + s[s.index(b):]
    open(p, 'w').write(s)
print(len(rows), 'rows')
