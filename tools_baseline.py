#!/usr/bin/env python3
"""runs the pinned suite and compares with /root/.vp/BASELINE.json stable_pass"""
import json, subprocess, sys, xml.etree.ElementTree as ET, tempfile, os
base = json.load(open('/root/.vp/BASELINE.json'))
fd, xmlp = tempfile.mkstemp(suffix='.xml'); os.close(fd)
cmd = base['cmd'].replace('<file>', xmlp)
subprocess.run(cmd, shell=True, stdout=subprocess.DEVNULL, stderr=subprocess.DEVNULL)
passed, failed = set(), set()
for tc in ET.parse(xmlp).getroot().iter('testcase'):
    name = "%s::%s" % (tc.get('classname'), tc.get('name'))
    bad = any(ch.tag in ('failure', 'error', 'skipped') for ch in tc)
    (failed if bad else passed).add(name)
os.unlink(xmlp)
stable = set(base['stable_pass'])
missing = stable - passed
print("passed=%d failed=%d stable=%d stable_missing=%d newly_passing=%d" % (len(passed), len(failed), len(stable), len(missing), len(passed - stable)))
for m in sorted(missing)[:10]:
    print("  MISSING", m)
sys.exit(1 if missing else 0)
