#!/usr/bin/env python3
"""regenerates MANIFEST.json from the list of implemented property modules"""
import json, os, importlib, sys
HERE = os.path.dirname(os.path.abspath(__file__))
props = [json.loads(l) for l in open(os.path.join(HERE, 'properties.jsonl'))]
META = json.load(open(os.path.join(HERE, 'manifest_meta.json')))
checks, na = [], []
for p in props:
    pid = p['id']
    m = META['checks'].get(pid)
    if m and os.path.exists(os.path.join(HERE, 'vf', 'props', pid.lower() + '.py')):
        checks.append(dict(
            property_id=pid,
            quick_cmd="./vcheck %s --tier quick" % pid,
            thorough_cmd="./vcheck %s --tier thorough" % pid,
            evidence_file="evidence/%s.json" % pid,
            replay_cmd_template="./vcheck replay {path}",
            engine="symex",
            level_claimed=dict(category="model_checking", text=m['level_text'], design_ref=m.get('design_ref', 'DESIGN.md section 3 / %s' % pid)),
            level_note=m['level_note'],
            technique=m['technique']))
    else:
        na.append(dict(property_id=pid, reason=META['not_applicable'].get(pid, "check not built yet (work in progress)")))
man = dict(version=1, setup_cmd="./setup.sh",
           hooks=dict(guard="NASIM_VERIF", enable="no hook commit exists: the checks inject their array model and stubs by setting attributes on the imported nasim modules at run time; NASIM_VERIF is reserved and unused",
                      baseline_off_cmd="cd /repo && /venv/bin/python -m pytest -ra -q -p no:cacheprovider --timeout=900 --continue-on-collection-errors",
                      source_commits=[], add_only=True),
           engines=[dict(name="symex", path="vf/symex.py", serves_properties=[c['property_id'] for c in checks],
                         kind_free_text="symbolic execution of the real Python source by z3-backed proxy values (forks at __bool__, solver-decided branches and obligations, DFS over decision logs by re-execution), counterexamples replayed on the unmodified code")],
           checks=checks, notes=META.get('notes', ''), not_applicable=na)
json.dump(man, open(os.path.join(HERE, 'MANIFEST.json'), 'w'), indent=1)
print("checks:", [c['property_id'] for c in checks], "na:", [n['property_id'] for n in na])
