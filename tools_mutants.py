#!/usr/bin/env python3
"""tools_mutants.py <mutants.json> [ids...] -- try the checks against hand-written mutants.
Each mutant: {id, file, old, new, expect: [property ids]}.  Works on a scratch copy of /repo."""
import json, os, shutil, subprocess, sys, tempfile, time
muts = json.load(open(sys.argv[1]))
sel = set(sys.argv[2:])
checks_override = os.environ.get('CHECKS')
rows = []
for m in muts:
    if sel and m['id'] not in sel:
        continue
    d = tempfile.mkdtemp(prefix='mut_', dir='/tmp')
    try:
        subprocess.run(['cp', '-r', '/repo/nasim', d + '/nasim'], check=True)
        p = os.path.join(d, m['file'])
        s = open(p).read()
        if m['old'] not in s:
            rows.append((m['id'], 'PATTERN-NOT-FOUND', ''))
            continue
        open(p, 'w').write(s.replace(m['old'], m['new'], 1))
        checks = checks_override.split(',') if checks_override else m.get('run', m['expect'])
        res = []
        for c in checks:
            t0 = time.time()
            env = dict(os.environ, VERIF_REPO=d, VERIF_EVIDENCE_DIR=d + '/evidence')
            pr = subprocess.run(['/verif/vcheck', c, '--tier', os.environ.get('TIER', 'quick')], env=env, capture_output=True, text=True)
            viol = [l for l in pr.stdout.splitlines() if l.startswith('violated obligation')]
            res.append("%s:exit=%d(%ds)%s" % (c, pr.returncode, time.time() - t0, (' ' + viol[0][20:70]) if viol else ''))
            if pr.returncode == 2:
                res.append('   ERR ' + pr.stderr.strip().splitlines()[-1][:200] if pr.stderr.strip() else '')
        rows.append((m['id'], 'expect=' + ','.join(m['expect']), ' | '.join(res)))
        print(rows[-1], flush=True)
    finally:
        shutil.rmtree(d, ignore_errors=True)
