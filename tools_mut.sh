#!/bin/bash
# usage: tools_mut.sh <file-in-repo> <python-regex-old> <new> -- <check args...>
# applies a one-off textual mutation to /repo, runs ./vcheck, reverts.
f="$1"; old="$2"; new="$3"; shift 4
python3 - "$f" "$old" "$new" <<'PY'
import sys
f, old, new = sys.argv[1:4]
s = open('/repo/'+f).read()
assert s.count(old) >= 1, "pattern not found"
s = s.replace(old, new, 1)
open('/repo/'+f, 'w').write(s)
PY
[ $? -eq 0 ] || exit 9
git -C /repo diff --stat | tail -1
/verif/vcheck "$@" 2>&1 | grep -v Warning | tail -${TAILN:-6}
echo "exit=${PIPESTATUS[0]}"
git -C /repo checkout -- .
