#!/usr/bin/env python3
"""copies evaluated seeded changes from /tmp/mut_out + /tmp/mutkit/results into /verif/seeded/<id>/"""
import json, os, shutil, sys, re
props = {json.loads(l)['id']: json.loads(l) for l in open('/verif/properties.jsonl')}
rows = []
for f in sorted(os.listdir('/tmp/mutkit/results')):
    m = f[:-5]
    try:
        d = json.load(open('/tmp/mutkit/results/' + f))
    except Exception:
        continue
    pid = m.split('_')[0]
    ok = d.get('demo_clean_exit') == 0 and d.get('demo_mutant_exit') not in (0, None) and 'BROKEN: 0' in d.get('tests', '')
    if not ok:
        rows.append((m, 'NOT-CONFIRMED', d.get('demo_clean_exit'), d.get('demo_mutant_exit'), d.get('tests')))
        continue
    dst = '/verif/seeded/' + m
    os.makedirs(dst, exist_ok=True)
    for fn in ('patch.diff', 'demo.py', 'notes.md'):
        shutil.copy('/tmp/mut_out/%s/%s' % (m, fn), dst)
    notes = open('/tmp/mut_out/%s/notes.md' % m).read()
    checks = d.get('checks', {})
    extra = {}
    xf = '/tmp/mutkit/results_extra/%s.json' % m
    if os.path.exists(xf):
        extra = json.load(open(xf)).get('checks', {})
    allc = dict(checks); allc.update(extra)
    meta = dict(id=m, breaks_property=pid, property_title=props[pid]['title'],
                origin="written by an independent sub-agent that saw only the property text and a scratch worktree of /repo",
                needs_to_manifest=notes.strip()[:1500],
                confirmed_by_me=dict(demo_exit_on_unchanged_tree=d['demo_clean_exit'], demo_exit_with_change=d['demo_mutant_exit'],
                                     demo_message=d.get('demo_msg'), existing_test_suite=d['tests'],
                                     how="tools_seeded.py: git archive of /repo HEAD into a scratch dir, demo.py on it, git apply patch.diff, demo.py again, /tmp/mutkit/check_tests.sh (pinned pytest suite vs. the 1273 tests passing on the unchanged tree), then ./vcheck with VERIF_REPO pointing at the scratch copy"),
                checks_run={k: dict(exit=v['exit'], secs=v['secs'], first_violated_obligation=v.get('first', '')[:160]) for k, v in allc.items()},
                caught_by=[k for k, v in allc.items() if v['exit'] == 1])
    json.dump(meta, open(dst + '/meta.json', 'w'), indent=1)
    rows.append((m, 'saved', 'caught_by=' + ','.join(meta['caught_by']), {k: v['exit'] for k, v in allc.items()}))
for r in rows:
    print(r)
