"""hidden -- the premise of the one-step induction, checked mechanically.

"One symbolic step from an arbitrary Inv-state covers histories of any length" is sound only if a
step depends on nothing but (scenario, state, action, draw).  Before and after the call under test
the harness therefore takes a structural snapshot of everything else the code could remember:
instance dictionaries of the Network / NASimEnv / Scenario / Host objects, class attributes of the
nasim.envs classes and mutable module globals.  If anything changed (a cache, a counter, a pruned
list), the harness makes a second call on the same objects from a fresh symbolic Inv-state and all
obligations are evaluated for that call too - that is where a stale cache shows.
"""
import types

import numpy as _np

from . import symex as sx
from . import npmodel

import nasim.envs.network as m_net
import nasim.envs.state as m_state
import nasim.envs.host_vector as m_hv
import nasim.envs.observation as m_obs
import nasim.envs.environment as m_env
import nasim.envs.action as m_act
import nasim.envs.utils as m_utils

MODULES = [m_net, m_state, m_hv, m_obs, m_env, m_act, m_utils]
CLASSES = [m_net.Network, m_state.State, m_hv.HostVector, m_obs.Observation, m_env.NASimEnv,
           m_act.Action, m_act.ActionResult, m_act.FlatActionSpace, m_act.ParameterisedActionSpace]


class _Term:
    """a z3 term compared structurally (terms are hash-consed; the reference keeps the AST alive,
    so its identity cannot be reused while a snapshot exists)"""
    __slots__ = ('t',)

    def __init__(self, t):
        self.t = t

    def __eq__(self, other):
        return isinstance(other, _Term) and self.t.eq(other.t)

    def __ne__(self, other):
        return not self.__eq__(other)

    def __hash__(self):
        return self.t.hash()

    def __repr__(self):
        return 'term'


def canon(x, depth=0, seen=None):
    if seen is None:
        seen = set()
    if isinstance(x, sx.SymBool) or isinstance(x, sx.SymNum):
        return _Term(x.z)
    if x is None or isinstance(x, (bool, int, float, str, bytes, complex)):
        return x
    if isinstance(x, (_np.generic,)):
        return ('np', x.item())
    if isinstance(x, npmodel.SArray):
        return ('arr', x.buf.id, x.buf.writes, x.shape, x.offset)
    if isinstance(x, _np.ndarray):
        return ('nd', x.shape, x.tobytes())
    if isinstance(x, (types.FunctionType, types.BuiltinFunctionType, types.MethodType, type,
                      types.ModuleType, staticmethod, classmethod, property)):
        return ('callable', getattr(x, '__qualname__', repr(type(x))))
    if id(x) in seen or depth > 5:
        return ('ref', type(x).__name__)
    seen = seen | {id(x)}
    if isinstance(x, dict):
        return ('dict', tuple((canon(k, depth + 1, seen), canon(v, depth + 1, seen)) for k, v in x.items()))
    if isinstance(x, (list, tuple)):
        return (type(x).__name__, tuple(canon(v, depth + 1, seen) for v in x))
    if isinstance(x, (set, frozenset)):
        return ('set', tuple(sorted(repr(canon(v, depth + 1, seen)) for v in x)))
    d = getattr(x, '__dict__', None)
    if d is not None:
        return ('obj', type(x).__name__, tuple((k, canon(v, depth + 1, seen)) for k, v in d.items()))
    return ('other', type(x).__name__)


def snapshot(objs, skip=()):
    """objs: {name: object}; returns a flat dict path -> canonical value"""
    snap = {}
    for name, o in objs.items():
        d = getattr(o, '__dict__', {})
        for k, v in d.items():
            if (name, k) in skip:
                continue
            snap["%s.%s" % (name, k)] = canon(v)
    for c in CLASSES:
        for k, v in vars(c).items():
            if k.startswith('__') and k.endswith('__'):
                continue
            cv = canon(v)
            if isinstance(cv, tuple) and cv and cv[0] == 'callable':
                continue
            snap["class %s.%s" % (c.__name__, k)] = cv
    for m in MODULES:
        for k, v in vars(m).items():
            if k.startswith('__'):
                continue
            if isinstance(v, (dict, list, set)):
                snap["module %s.%s" % (m.__name__, k)] = canon(v)
    return snap


def diff(a, b):
    keys = set(a) | set(b)
    return sorted(k for k in keys if a.get(k, '<absent>') != b.get(k, '<absent>'))


# ------------------------------------------------------------------ process-wide state reset
# Every path of an exploration is a re-execution from the start, and replays run in the master
# process after other replays: anything the code under test keeps in module globals or class
# attributes (caches, registries) must be put back to its import-time content before each run,
# otherwise one path would see what another one left behind.

import copy as _copy
import nasim.scenarios as m_scenarios
import nasim.scenarios.scenario as m_scenario
import nasim.scenarios.loader as m_loader
import nasim.scenarios.generator as m_generator
import nasim.scenarios.host as m_host
import nasim.scenarios.utils as m_sutils
import nasim.scenarios.benchmark as m_bench
import nasim.scenarios.benchmark.generated as m_bgen

RESET_MODULES = MODULES + [m_scenarios, m_scenario, m_loader, m_generator, m_host, m_sutils, m_bench, m_bgen]


def _capture():
    base = {}
    for m in RESET_MODULES:
        for k, v in list(vars(m).items()):
            if k.startswith('__'):
                continue
            if isinstance(v, (dict, list, set)):
                try:
                    base[(m, k)] = (v, _copy.deepcopy(v))
                except Exception:
                    pass
        for cname, c in list(vars(m).items()):
            if isinstance(c, type) and getattr(c, '__module__', '') == m.__name__:
                for k, v in list(vars(c).items()):
                    if k.startswith('__') or callable(v) or isinstance(v, (staticmethod, classmethod, property)):
                        continue
                    try:
                        base[(c, k)] = (v, _copy.deepcopy(v))
                    except Exception:
                        pass
    names = {}
    for m in RESET_MODULES:
        names[m] = set(vars(m).keys())
    # mutable default arguments of functions / methods (a dict default is a process-wide cache)
    import types as _types
    for m in RESET_MODULES:
        fns = [v for v in vars(m).values() if isinstance(v, _types.FunctionType)]
        for c in vars(m).values():
            if isinstance(c, type) and getattr(c, '__module__', '') == m.__name__:
                for v in vars(c).values():
                    f = v.__func__ if isinstance(v, (staticmethod, classmethod)) else v
                    if isinstance(f, _types.FunctionType):
                        fns.append(f)
        for f in fns:
            for i, dv in enumerate(f.__defaults__ or ()):
                if isinstance(dv, (dict, list, set)):
                    base[('default', f, i)] = (dv, _copy.deepcopy(dv))
            for k, dv in (f.__kwdefaults__ or {}).items():
                if isinstance(dv, (dict, list, set)):
                    base[('default', f, k)] = (dv, _copy.deepcopy(dv))
    return base, names


_BASE, _NAMES = _capture()


def restore():
    for key, (obj, snap) in _BASE.items():
        if key[0] == 'default':
            if isinstance(obj, list):
                obj[:] = _copy.deepcopy(snap)
            else:
                obj.clear()
                obj.update(_copy.deepcopy(snap))
            continue
        owner, k = key
        cur = vars(owner).get(k, None) if not isinstance(owner, type) else owner.__dict__.get(k, None)
        if isinstance(obj, dict):
            obj.clear()
            obj.update(_copy.deepcopy(snap))
            if cur is not obj:
                setattr(owner, k, obj)
        elif isinstance(obj, list):
            obj[:] = _copy.deepcopy(snap)
            if cur is not obj:
                setattr(owner, k, obj)
        elif isinstance(obj, set):
            obj.clear()
            obj.update(_copy.deepcopy(snap))
            if cur is not obj:
                setattr(owner, k, obj)
        else:
            try:
                if cur is not obj and cur != obj:
                    setattr(owner, k, obj)
            except Exception:
                pass
    # globals / class attributes created after import (a cache added by a changed tree is part of
    # its import-time state; attributes created at run time are removed)
    for m, known in _NAMES.items():
        for k in list(vars(m).keys()):
            if k not in known and not k.startswith('__') and isinstance(vars(m)[k], (dict, list, set)):
                try:
                    delattr(m, k)       # a mutable container created at run time
                except Exception:
                    pass
