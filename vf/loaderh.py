"""loaderh -- the loader harness shared by C17 and C18.

A *document* is the Python dict PyYAML would hand to ScenarioLoader (structure of a skeleton or of
a shipped file) whose leaves come from a source: numbers (probabilities, costs, values, scan costs,
step limit) are solver variables, name choices and membership bits are solver-selected (forked),
optional keys are present or not.  ``nasim.scenarios.utils.load_yaml`` is stubbed to return the
document (symbolic side); the replay writes the concretised document with yaml.safe_dump and calls
the real nasim.load_scenario on the file.
"""
import copy
import os
import tempfile

import z3

from . import symex as sx
from . import scen, stubs, inject  # noqa: F401

import nasim.scenarios.utils as u
import nasim.scenarios.loader as m_loader

_DOC = [None]


def _load_yaml_stub(path):
    return _DOC[0]


EXTRA_STUBS = [(u, 'load_yaml', _load_yaml_stub)]


def num(src, name, typ, lo=None, hi=None):
    """a numeric YAML leaf: 'int' -> integer, 'float' -> real (a Python float in the replay)"""
    if typ == 'int':
        return src.int(name, lo, hi)
    return src.real(name, lo, hi)


def pick(src, name, options):
    """solver-selected choice among concrete options (forks by concretisation)"""
    if len(options) == 1:
        return options[0]
    k = src.int(name, 0, len(options) - 1)
    return options[int(k)]


def flag(src, name):
    """solver-selected presence / membership bit, decided (forked) while building the document"""
    return bool(src.bool(name))


ACCESS_SPELLINGS = ['user', 'root', 1, 2]
ACCESS_VALUE = {'user': 1, 'root': 2, 1: 1, 2: 2}
NONE_SPELLINGS = ['none', 'None']


def skeleton(src, q):
    """Build (document, expectation).  q['skel'] in {'A','B'}; q['numtype'] in {'int','float'};
    q['sym'] lists which leaf groups are symbolic (the others take fixed valid values)."""
    sk = q.get('skel', 'A')
    nt = q.get('numtype', 'float')
    sym = set(q.get('sym', ['nums', 'limit', 'hostvalue', 'fw', 'hostfw', 'cfg']))
    picks = set(q.get('picks', []))
    nums = 'nums' in sym
    if sk == 'A':
        sizes, services, oss, procs = [1, 1, 1], ['ssh'], ['linux'], ['tomcat']
        topo = [[1, 1, 0, 0], [1, 1, 1, 1], [0, 1, 1, 1], [0, 1, 1, 1]]
        sens_addrs = [(2, 0), (3, 0)]
        edefs = [('e_ssh', 0)]
        pdefs = [('pe_tomcat', 0)]
    elif sk == 'C':
        # one large subnet: two-digit host indices
        sizes, services, oss, procs = [12], ['ssh'], ['linux'], ['tomcat']
        topo = [[1, 1], [1, 1]]
        sens_addrs = [(1, 11), (1, 2)]
        edefs = [('e_ssh', 0)]
        pdefs = [('pe_tomcat', 0)]
    else:
        sizes, services, oss, procs = [2, 1], ['ssh', 'ftp'], ['linux', 'windows'], ['tomcat', 'daclsvc']
        topo = [[1, 1, 0], [1, 1, 1], [0, 1, 1]]
        sens_addrs = [(2, 0)]
        edefs = [('e_ssh', 0), ('e_ftp', 1)]
        pdefs = [('pe_tomcat', 0)] if q.get('privescs', 1) else []
    n = len(sizes) + 1
    addrs = [(s + 1, h) for s, k in enumerate(sizes) for h in range(k)]
    exp = dict(subnets=[1] + sizes, topology=copy.deepcopy(topo), os=list(oss), services=list(services),
               processes=list(procs), sens={}, exploits={}, privescs={}, scan={}, fw={}, hosts={},
               limit=None)
    doc = {u.SUBNETS: list(sizes), u.TOPOLOGY: copy.deepcopy(topo), u.OS: list(oss),
           u.SERVICES: list(services), u.PROCESSES: list(procs)}
    # sensitive hosts
    sh = {}
    for a in sens_addrs:
        v = num(src, 'sens_%d%d' % a, nt, 1 if nt == 'int' else None, 1000) if nums else 100
        if nums and nt != 'int' and src.symbolic:
            sx.assume(sx.znum(v) > 0)
        sh[str(a)] = v
        exp['sens'][a] = v
    doc[u.SENSITIVE_HOSTS] = sh
    # exploits
    ex = {}
    for name, si in edefs:
        srv, osn, acc, prob, cost = services[si % len(services)], oss[si % len(oss)], 'user', 0.8, 1
        if name in picks:
            srv = pick(src, name + '_srv', services)
            osn = pick(src, name + '_os', oss + NONE_SPELLINGS)
            acc = pick(src, name + '_acc', ACCESS_SPELLINGS)
        if nums:
            prob = num(src, name + '_prob', 'float', 0, 1)
            cost = num(src, name + '_cost', nt, 1 if nt == 'int' else None, 1000)
            if nt != 'int' and src.symbolic:
                sx.assume(sx.znum(cost) > 0)
        ex[name] = {u.EXPLOIT_SERVICE: srv, u.EXPLOIT_OS: osn, u.EXPLOIT_PROB: prob,
                    u.EXPLOIT_COST: cost, u.EXPLOIT_ACCESS: acc}
        exp['exploits'][name] = dict(service=srv, os=None if str(osn).lower() == 'none' else osn,
                                     prob=prob, cost=cost, access=ACCESS_VALUE[acc])
    doc[u.EXPLOITS] = ex
    pe = {}
    for name, pi in pdefs:
        prc, osn, acc, prob, cost = procs[pi % len(procs)], oss[0], 'root', 1.0, 1
        if name in picks:
            prc = pick(src, name + '_prc', procs)
            osn = pick(src, name + '_os', oss + NONE_SPELLINGS[:1])
            acc = pick(src, name + '_acc', ACCESS_SPELLINGS)
        if nums:
            prob = num(src, name + '_prob', 'float', 0, 1)
            cost = num(src, name + '_cost', nt, 1 if nt == 'int' else None, 1000)
            if nt != 'int' and src.symbolic:
                sx.assume(sx.znum(cost) > 0)
        pe[name] = {u.PRIVESC_PROCESS: prc, u.PRIVESC_OS: osn, u.PRIVESC_PROB: prob,
                    u.PRIVESC_COST: cost, u.PRIVESC_ACCESS: acc}
        exp['privescs'][name] = dict(process=prc, os=None if str(osn).lower() == 'none' else osn,
                                     prob=prob, cost=cost, access=ACCESS_VALUE[acc])
    doc[u.PRIVESCS] = pe
    for key, short in ((u.SERVICE_SCAN_COST, 'service'), (u.OS_SCAN_COST, 'os'),
                       (u.SUBNET_SCAN_COST, 'subnet'), (u.PROCESS_SCAN_COST, 'process')):
        c = num(src, 'scan_' + short, nt, 0, 1000) if nums else 1
        doc[key] = c
        exp['scan'][short] = c
    # host configurations
    hc = {}
    for a in addrs:
        nm = 'h%d%d' % a
        if 'cfg' in sym and a == addrs[0]:
            hos = pick(src, nm + '_os', oss)
            hsrv = [s for s in services if flag(src, '%s_srv_%s' % (nm, s))]
            if not hsrv:
                hsrv = [services[0]]      # documented: at least one service
            hprc = [p for p in procs if flag(src, '%s_prc_%s' % (nm, p))]
        else:
            hos, hsrv, hprc = oss[(a[0] + a[1]) % len(oss)], list(services), list(procs[:1])
        cfg = {u.HOST_OS: hos, u.HOST_SERVICES: hsrv, u.HOST_PROCESSES: hprc}
        deny = {}
        if 'hostfw' in sym and a == (tuple(q['hostfw_on']) if q.get('hostfw_on') else addrs[-1]):
            if flag(src, nm + '_has_fw'):
                fwd = {}
                for g in addrs:
                    if g == a:
                        continue
                    if flag(src, '%s_fw_%d%d' % (nm, g[0], g[1])):
                        lst = [s for s in services if flag(src, '%s_deny_%d%d_%s' % (nm, g[0], g[1], s))]
                        fwd[str(g)] = lst
                        deny[g] = lst
                cfg[u.HOST_FIREWALL] = fwd
        elif q.get('fixed_hostfw', True) and a == addrs[0]:
            g = addrs[-1]
            cfg[u.HOST_FIREWALL] = {str(g): [services[0]]}
            deny[g] = [services[0]]
        value = None
        if a in exp['sens']:
            value = exp['sens'][a]
            if 'hostvalue' in sym and q.get('sens_value_in_cfg') and flag(src, nm + '_repeats_value'):
                cfg[u.HOST_VALUE] = exp['sens'][a]      # allowed: matches the declared value
        elif 'hostvalue' in sym and a == addrs[0]:
            if flag(src, nm + '_has_value'):
                hv = num(src, nm + '_value', nt, -1000, 1000)
                cfg[u.HOST_VALUE] = hv
                value = hv
        hc[str(a)] = cfg
        exp['hosts'][a] = dict(os=hos, services=hsrv, processes=hprc, deny=deny,
                               value=value if value is not None else 0)
    if q.get('host_order') == 'reversed':
        hc = {k: hc[k] for k in reversed(list(hc))}      # a YAML mapping has no prescribed order
    doc[u.HOST_CONFIGS] = hc
    # subnet firewall: every connected ordered pair
    fw = {}
    first = True
    for i in range(n):
        for j in range(n):
            if i == j or not topo[i][j]:
                continue
            if 'fw' in sym and first:
                lst = [s for s in services if flag(src, 'fw_%d_%d_%s' % (i, j, s))]
                first = False
            else:
                lst = list(services) if (i + j) % 2 else list(services[:1])
            fw[str((i, j))] = lst
            exp['fw'][(i, j)] = list(lst)
    doc[u.FIREWALL] = fw
    if 'limit' in sym:
        if flag(src, 'has_limit'):
            lim = src.int('limit', 1, None)
            doc[u.STEP_LIMIT] = lim
            exp['limit'] = lim
    else:
        doc[u.STEP_LIMIT] = 1000
        exp['limit'] = 1000
    exp['addrs'] = addrs
    return doc, exp


def shipped(src, q):
    """a shipped benchmark file with its numeric leaves replaced by solver variables"""
    import yaml
    from nasim.scenarios.benchmark import AVAIL_STATIC_BENCHMARKS
    path = AVAIL_STATIC_BENCHMARKS[q['file']]['file']
    with open(path) as f:
        doc = yaml.load(f, Loader=yaml.FullLoader)
    sizes = list(doc[u.SUBNETS])
    addrs = [(s + 1, h) for s, k in enumerate(sizes) for h in range(k)]
    exp = dict(subnets=[1] + sizes, topology=copy.deepcopy(doc[u.TOPOLOGY]), os=list(doc[u.OS]),
               services=list(doc[u.SERVICES]), processes=list(doc[u.PROCESSES]), sens={}, exploits={},
               privescs={}, scan={}, fw={}, hosts={}, limit=doc.get(u.STEP_LIMIT), addrs=addrs)
    for k, v in list(doc[u.SENSITIVE_HOSTS].items()):
        nv = src.real('sens_%s' % k.replace(' ', ''), None, 1000)
        if src.symbolic:
            sx.assume(sx.znum(nv) > 0)
        doc[u.SENSITIVE_HOSTS][k] = nv
        exp['sens'][eval(k)] = nv
    for name, e in doc[u.EXPLOITS].items():
        e[u.EXPLOIT_PROB] = src.real(name + '_prob', 0, 1)
        e[u.EXPLOIT_COST] = src.real(name + '_cost', None, 1000)
        if src.symbolic:
            sx.assume(sx.znum(e[u.EXPLOIT_COST]) > 0)
        exp['exploits'][name] = dict(service=e[u.EXPLOIT_SERVICE],
                                     os=None if str(e[u.EXPLOIT_OS]).lower() == 'none' else e[u.EXPLOIT_OS],
                                     prob=e[u.EXPLOIT_PROB], cost=e[u.EXPLOIT_COST],
                                     access=ACCESS_VALUE[e[u.EXPLOIT_ACCESS]])
    for name, e in doc[u.PRIVESCS].items():
        e[u.PRIVESC_PROB] = src.real(name + '_prob', 0, 1)
        e[u.PRIVESC_COST] = src.real(name + '_cost', None, 1000)
        if src.symbolic:
            sx.assume(sx.znum(e[u.PRIVESC_COST]) > 0)
        exp['privescs'][name] = dict(process=e[u.PRIVESC_PROCESS],
                                     os=None if str(e[u.PRIVESC_OS]).lower() == 'none' else e[u.PRIVESC_OS],
                                     prob=e[u.PRIVESC_PROB], cost=e[u.PRIVESC_COST],
                                     access=ACCESS_VALUE[e[u.PRIVESC_ACCESS]])
    for key, short in ((u.SERVICE_SCAN_COST, 'service'), (u.OS_SCAN_COST, 'os'),
                       (u.SUBNET_SCAN_COST, 'subnet'), (u.PROCESS_SCAN_COST, 'process')):
        doc[key] = src.real('scan_' + short, 0, 1000)
        exp['scan'][short] = doc[key]
    for k, cfg in doc[u.HOST_CONFIGS].items():
        a = eval(k)
        deny = {eval(g): list(v) for g, v in cfg.get(u.HOST_FIREWALL, {}).items()}
        if a in exp['sens']:
            value = exp['sens'][a]
            cfg.pop(u.HOST_VALUE, None)
        else:
            value = cfg.get(u.HOST_VALUE, 0)
        exp['hosts'][a] = dict(os=cfg[u.HOST_OS], services=list(cfg[u.HOST_SERVICES]),
                               processes=list(cfg[u.HOST_PROCESSES]), deny=deny, value=value)
    for k, v in doc[u.FIREWALL].items():
        exp['fw'][eval(k)] = list(v)
    if u.STEP_LIMIT in doc:
        doc[u.STEP_LIMIT] = src.int('limit', 1, None)
        exp['limit'] = doc[u.STEP_LIMIT]
    return doc, exp


def load(src, doc):
    """run the loader on the document: stubbed load_yaml (symbolic) or a real file (replay)"""
    if src.symbolic:
        _DOC[0] = doc
        with stubs.sut():
            return m_loader.ScenarioLoader().load('/nonexistent/sym.yaml', name='sym')
    import yaml
    import nasim
    fd, path = tempfile.mkstemp(suffix='.yaml', prefix='verif_doc_')
    os.close(fd)
    try:
        with open(path, 'w') as f:
            yaml.safe_dump(plain(doc), f, default_flow_style=None, sort_keys=False)
        with stubs.sut():
            return nasim.load_scenario(path, name='sym')
    finally:
        os.unlink(path)


def plain(x):
    if isinstance(x, dict):
        return {plain(k): plain(v) for k, v in x.items()}
    if isinstance(x, (list, tuple)):
        return [plain(v) for v in x]
    return x


# ------------------------------------------------------------------ oracle for a returned Scenario

def _eqv(a, b):
    """numeric / plain equality as a z3 formula"""
    if a is None or b is None:
        return z3.BoolVal(a is None and b is None)
    if isinstance(a, (str, bool)) or isinstance(b, (str, bool)):
        if sx.is_sym(a) or sx.is_sym(b):
            return z3.BoolVal(False)
        return z3.BoolVal(type(a) is type(b) and a == b)
    x, y = sx._coerce(sx.znum(a), sx.znum(b))
    return x == y


def scenario_obligations(sc, exp):
    obl = []
    services = exp['services']
    obl.append(('subnets', z3.BoolVal(list(sc.subnets) == exp['subnets'])))
    obl.append(('topology', z3.BoolVal([list(r) for r in sc.topology] == exp['topology'])))
    obl.append(('name_lists', z3.BoolVal(list(sc.os) == exp['os'] and list(sc.services) == services
                                          and list(sc.processes) == exp['processes'])))
    sh = sc.sensitive_hosts
    obl.append(('sensitive_hosts', z3.And([z3.BoolVal(set(sh.keys()) == set(exp['sens'].keys()))] +
                                          [_eqv(sh.get(a), v) for a, v in exp['sens'].items() if a in sh])))
    for nm, d in exp['exploits'].items():
        e = sc.exploits.get(nm)
        if e is None:
            obl.append(('exploit_%s' % nm, z3.BoolVal(False)))
            continue
        obl.append(('exploit_%s' % nm, z3.And(
            z3.BoolVal(e[u.EXPLOIT_SERVICE] == d['service'] and e[u.EXPLOIT_OS] == d['os']),
            _eqv(e[u.EXPLOIT_PROB], d['prob']), _eqv(e[u.EXPLOIT_COST], d['cost']),
            _eqv(e[u.EXPLOIT_ACCESS], d['access']),
            z3.BoolVal(not isinstance(e[u.EXPLOIT_ACCESS], str)))))
    obl.append(('exploit_names', z3.BoolVal(sorted(sc.exploits.keys()) == sorted(exp['exploits'].keys()))))
    for nm, d in exp['privescs'].items():
        e = sc.privescs.get(nm)
        if e is None:
            obl.append(('privesc_%s' % nm, z3.BoolVal(False)))
            continue
        obl.append(('privesc_%s' % nm, z3.And(
            z3.BoolVal(e[u.PRIVESC_PROCESS] == d['process'] and e[u.PRIVESC_OS] == d['os']),
            _eqv(e[u.PRIVESC_PROB], d['prob']), _eqv(e[u.PRIVESC_COST], d['cost']),
            _eqv(e[u.PRIVESC_ACCESS], d['access']),
            z3.BoolVal(not isinstance(e[u.PRIVESC_ACCESS], str)))))
    obl.append(('privesc_names', z3.BoolVal(sorted(sc.privescs.keys()) == sorted(exp['privescs'].keys()))))
    obl.append(('scan_costs', z3.And(_eqv(sc.service_scan_cost, exp['scan']['service']),
                                     _eqv(sc.os_scan_cost, exp['scan']['os']),
                                     _eqv(sc.subnet_scan_cost, exp['scan']['subnet']),
                                     _eqv(sc.process_scan_cost, exp['scan']['process']))))
    fw = sc.firewall
    obl.append(('subnet_firewall', z3.BoolVal(set(fw.keys()) == set(exp['fw'].keys()) and
                                              all(sorted(fw[k]) == sorted(exp['fw'][k]) and len(fw[k]) == len(exp['fw'][k])
                                                  for k in exp['fw'] if k in fw))))
    obl.append(('host_addresses', z3.BoolVal(sorted(sc.hosts.keys()) == sorted(exp['addrs']) and
                                             len(sc.hosts) == len(exp['addrs']))))
    for a, d in exp['hosts'].items():
        h = sc.hosts.get(a)
        if h is None:
            continue
        cfg_ok = (h.address == a and
                  {k: bool(v) for k, v in h.os.items()} == {o: o == d['os'] for o in exp['os']} and
                  {k: bool(v) for k, v in h.services.items()} == {s: s in d['services'] for s in services} and
                  {k: bool(v) for k, v in h.processes.items()} == {p: p in d['processes'] for p in exp['processes']})
        obl.append(('host_config_%d_%d' % a, z3.BoolVal(bool(cfg_ok))))
        obl.append(('host_value_%d_%d' % a, _eqv(h.value, d['value'])))
        deny_ok = True
        for _pass in (1, 2):       # asking twice must give the same answers
            for g in exp['addrs']:
                for s in services:
                    want = s not in d['deny'].get(g, [])
                    if bool(h.traffic_permitted(g, s)) != want:
                        deny_ok = False
        obl.append(('host_firewall_denies_%d_%d' % a, z3.BoolVal(deny_ok)))
    obl.append(('step_limit', _eqv(sc.step_limit, exp['limit'])))
    return obl
