"""reach -- is the pre-state of a counterexample reachable from reset() in its own scenario?

Inv over-approximates the reachable states, so a counterexample whose pre-state no history reaches
is not a finding.  The scenario of the counterexample is concrete and small; its network part is
kept as is, and the attacker is given every exploit / escalation a scenario could define (the step
under test depends on the network, the state and the action only, never on the other action
definitions).  Breadth-first search over the real Network.perform_action with draws scripted to
succeed.
"""
from collections import deque

import numpy as np

from . import scen, stubs
from .scen import Shape

import nasim.envs.network as m_net
import nasim.envs.state as m_state
import nasim.envs.action as m_act


def helper_actions(w):
    acts = []
    for a in w.addrs:
        acts.append(('subnet_scan', a, None, None, m_act.SubnetScan(a, cost=1)))
        for s in w.services:
            for g in (1, 2):
                acts.append(('exploit', a, s, g,
                             m_act.Exploit("h", a, cost=1, service=s, os=None, access=g, prob=1.0)))
        for p in w.procs:
            acts.append(('privesc', a, p, 2,
                         m_act.PrivilegeEscalation("h", a, cost=1, access=2, process=p, os=None,
                                                   prob=1.0)))
    return acts


def status_key(w, state):
    idx = scen.status_idx()
    return tuple(int(state.tensor[w.scenario.host_num_map[a]][idx[k]])
                 for a in w.addrs for k in scen.STATUS)


def find_history(model, q, max_states=20000):
    src = scen.ConcSource(model)
    if q.get('loaded'):
        from . import loaderh, loaded
        doc, exp = loaderh.skeleton(src, q)
        sc = loaderh.load(src, doc)
        w = loaded.world_from_document(src, exp, sc)
    else:
        shape = Shape.from_json(q['shape'])
        sens = [tuple(a) for a in q['sens']] if q.get('sens') else None
        w = scen.build_world(src, shape, sens=sens, host_fw=q.get('host_fw', True),
                             host_order=q.get('host_order'))
    net = m_net.Network(w.scenario)
    init = m_state.State.generate_initial_state(net)
    goal_state = init.copy()
    tag = q.get('state_tag', '')
    scen.symbolic_state(w, goal_state, tag=tag)
    goal = status_key(w, goal_state)
    acts = helper_actions(w)
    seen = {status_key(w, init): None}
    dq = deque([init])
    with stubs.ScriptedRand([], default=0.0):
        while dq:
            s = dq.popleft()
            k = status_key(w, s)
            if k == goal:
                hist = []
                while seen[k] is not None:
                    pk, desc = seen[k]
                    hist.append(desc)
                    k = pk
                return list(reversed(hist))
            if len(seen) > max_states:
                return None
            for (kind, a, nm, g, act) in acts:
                ns, res = net.perform_action(s, act)
                if not res.success:
                    continue
                nk = status_key(w, ns)
                if nk not in seen:
                    seen[nk] = (k, "%s%s%s%s" % (kind, list(a), (" " + nm) if nm else "",
                                                 (" grant=%d" % g) if g else ""))
                    dq.append(ns)
    return None
