"""loaded -- dynamic harness on a scenario that came out of the real loader.

"The environment built from a file enforces every rule written in the file": a document skeleton
with solver-selected host-firewall / subnet-rule / host-configuration bits (vf/loaderh.py) is
loaded by the real ScenarioLoader; the real Network of the loaded Scenario is put into a symbolic
Inv-state and an exploit is performed; the step oracle (vf/spec.py) is evaluated against the
*document* (allow-lists, deny-lists, host configurations as written), not against the objects
the loader produced.
"""
import z3

from . import symex as sx
from . import scen, spec, loaderh, stubs, dyn

import nasim.envs.network as m_net
import nasim.envs.state as m_state
import nasim.envs.action as m_act


def world_from_document(src, exp, sc):
    """a scen.World view of the document (what the file says)"""
    w = scen.World()
    w.src = src
    w.scenario = sc
    w.addrs = list(exp['addrs'])
    w.services, w.oss, w.procs = list(exp['services']), list(exp['os']), list(exp['processes'])
    n = len(exp['subnets'])
    w.n = n
    w.T = exp['topology']
    w.FW = {}
    for i in range(n):
        for j in range(n):
            if i != j:
                allowed = exp['fw'].get((i, j), [])
                w.FW[(i, j)] = {s: (s in allowed) for s in w.services}
    w.os, w.srv, w.prc, w.deny, w.val, w.dval = {}, {}, {}, {}, {}, {}
    for a in w.addrs:
        h = exp['hosts'][a]
        w.os[a] = {o: (o == h['os']) for o in w.oss}
        w.srv[a] = {s: (s in h['services']) for s in w.services}
        w.prc[a] = {p: (p in h['processes']) for p in w.procs}
        w.deny[a] = {g: {s: (s in h['deny'].get(g, [])) for s in w.services} for g in w.addrs if g != a}
        w.val[a] = h['value']
        w.dval[a] = 0
    w.sens = list(exp['sens'].keys())
    w.hosts = sc.hosts
    return w


def run(src, q):
    """q: skel, numtype, sym groups (loaderh.skeleton), target, service"""
    r = dyn.Rec()
    r.q = q
    doc, exp = loaderh.skeleton(src, q)
    sc = loaderh.load(src, doc)
    w = world_from_document(src, exp, sc)
    r.w, r.exp = w, exp
    target = tuple(q['target'])
    A = scen.World()
    A.kind, A.target, A.name, A.os = 'exploit', target, q['service'], None
    A.cost, A.req = 1, 1
    A.prob = src.real('a_prob', 0, 1)
    A.grant = src.int('a_grant', 1, 2)
    with stubs.sut():
        A.obj = m_act.Exploit("e_x", target, cost=1, service=A.name, os=None, access=A.grant, prob=A.prob)
        net = m_net.Network(sc)
        state = m_state.State.generate_initial_state(net)
    r.A = A
    r.pre = scen.symbolic_state(w, state)
    r.st = scen.zstatus(r.pre)
    if src.symbolic:
        sx.assume(scen.inv(w, r.st))
        sx.check_feasible()
    draws = []
    if not src.symbolic:
        i = 0
        while ("u%d" % i) in src.m:
            draws.append(src.real("u%d" % i))
            i += 1
    scripted = stubs.ScriptedRand(draws, default=0.0)
    r.pre_rows = dyn.tensor_rows(state.tensor)
    with scripted:
        with stubs.sut():
            ns, res = net.perform_action(state, A.obj)
    r.post_rows = dyn.tensor_rows(ns.tensor)
    r.post = scen.read_status(w, ns)
    r.res = dyn.result_fields(res)
    r.res_obj = res
    if src.symbolic:
        r.ndraws = len(sx.cur().draws)
        r.u = sx.cur().draws[0] if sx.cur().draws else None
    else:
        r.ndraws = scripted.calls
        r.u = draws[0] if draws else (0.0 if scripted.calls else None)
    r.step = spec.Step(w, r.pre, A, r.u)
    r.second = None
    return r


def queries(skels=('A', 'B')):
    qs = []
    for sk in skels:
        targets = {'A': [(3, 0), (1, 0)], 'B': [(2, 0), (1, 0)]}[sk]
        services = {'A': ['ssh'], 'B': ['ssh', 'ftp']}[sk]
        for t in targets:
            for s in services:
                for groups in (['hostfw', 'fw'], ['fw', 'cfg']):
                    qs.append(dict(kind='loaded', skel=sk, numtype='float', sym=groups, picks=[],
                                   target=list(t), service=s, hostfw_on=list(t), loaded=True))
    return qs


def obligations(r):
    """C02's exploit clauses and C01's sufficiency, against the document"""
    step, succ = r.step, r.res['success']
    from .scen import public
    w, t = r.w, r.A.target
    return [('file_rules_enforced_exploit_needs_permitted_traffic', z3.Implies(succ, step.traffic)),
            ('file_rules_enforced_exploit_needs_pivot', z3.Implies(z3.And(succ, z3.Not(public(w, t[0]))), step.pivot)),
            ('file_rules_allow_what_they_allow', z3.Implies(step.must_succeed, succ))]
