"""symex -- symbolic execution of real Python code by proxy values over z3.

The code under test is executed by CPython.  Some values are proxies (SymBool / SymNum) wrapping z3
terms.  ``__bool__`` of a proxy is the fork point: the engine asks z3 which outcomes are feasible
under the path condition, follows one and queues the other.  ``__index__/__int__/__hash__``
concretise by solver-driven splitting.  Exploration is depth-first over *decision logs*; every
path is a re-execution of the harness from the start with its log as prefix.

Nothing in here knows about NASim.
"""
import time
from fractions import Fraction

import z3


class Cut(BaseException):
    """Path abandoned: infeasible assumption or explicit bound.  BaseException so that
    ``except Exception`` in the code under test cannot swallow it."""


class EngineUnsupported(BaseException):
    """The proxies were asked for something they do not model -> harness error, never a verdict."""


class Inconclusive(BaseException):
    """solver said unknown / budget exhausted"""


STATS = dict(paths=0, checks=0, solver_s=0.0, cuts=0, cross=0, cross_agree=0, cross_s=0.0)
CROSS_EVERY = int(__import__('os').environ.get('VERIF_CROSS_EVERY', '0') or 0)
_cross_counter = [0]


def reset_stats():
    STATS.update(paths=0, checks=0, solver_s=0.0, cuts=0, cross=0, cross_agree=0, cross_s=0.0)


def exactly_one(bs):
    """plain encoding (no pseudo-boolean builtins: the obligations are re-decided by cvc5)"""
    bs = list(bs)
    return z3.And([z3.Or(bs)] + [z3.Not(z3.And(bs[i], bs[j])) for i in range(len(bs)) for j in range(i + 1, len(bs))])


def at_most_one(bs):
    bs = list(bs)
    return z3.And([z3.Not(z3.And(bs[i], bs[j])) for i in range(len(bs)) for j in range(i + 1, len(bs))] + [z3.BoolVal(True)])


def _cvc5_verdict(smt2_text):
    import cvc5
    slv = cvc5.Solver(cvc5.TermManager()) if hasattr(cvc5, 'TermManager') else cvc5.Solver()
    parser = cvc5.InputParser(slv)
    parser.setStringInput(cvc5.InputLanguage.SMT_LIB_2_6, "(set-logic ALL)\n" + smt2_text, "obligation")
    sm = parser.getSymbolManager()
    out = []
    while True:
        cmd = parser.nextCommand()
        if cmd.isNull():
            break
        out.append(cmd.invoke(slv, sm))
    return ''.join(out).strip().splitlines()[-1] if ''.join(out).strip() else 'unknown'


def _check(solver, *assumptions):
    t0 = time.perf_counter()
    r = solver.check(*assumptions)
    STATS['solver_s'] += time.perf_counter() - t0
    STATS['checks'] += 1
    if r == z3.unknown:
        raise Inconclusive("solver returned unknown: %s" % solver.reason_unknown())
    return r


class Ctx:
    """One path: decision log prefix to follow, decisions taken, path condition."""

    def __init__(self, prefix):
        self.prefix = list(prefix)
        self.taken = []
        self.solver = z3.Solver()
        self.solver.set("timeout", 60000)
        self.pc = []
        self.nfresh = 0
        self.draws = []          # symbolic random draws made on this path (harness stubs)
        self.stream = []         # generic record of stub calls
        self.newforks = []       # alternative prefixes discovered on this path
        self.model = None        # a model of the current pc (cache), or None
        self.notes = {}

    def add(self, c):
        self.pc.append(c)
        self.solver.add(c)
        if self.model is not None:
            try:
                if not z3.is_true(self.model.eval(c, model_completion=True)):
                    self.model = None
            except z3.Z3Exception:
                self.model = None

    def get_model(self):
        if self.model is None:
            if _check(self.solver) != z3.sat:
                raise Cut("infeasible")
            self.model = self.solver.model()
        return self.model

    def feasible(self, c):
        self.solver.push()
        try:
            self.solver.add(c)
            r = _check(self.solver)
            m = self.solver.model() if r == z3.sat else None
        finally:
            self.solver.pop()
        return r == z3.sat, m


CUR = None
PATH_RESET_HOOKS = []      # callables run before every path (process-wide state of the code under test)


def cur():
    if CUR is None:
        raise EngineUnsupported("symbolic value used outside an exploration")
    return CUR


def branch(cond):
    """Decide a z3 Bool under the current path; returns a python bool and records the decision."""
    ctx = cur()
    cond = z3.simplify(cond)
    if z3.is_true(cond):
        return True
    if z3.is_false(cond):
        return False
    i = len(ctx.taken)
    if i < len(ctx.prefix):
        d = ctx.prefix[i]
        if d is not True and d is not False:
            raise EngineUnsupported("decision log out of sync (non-deterministic harness?)")
        ctx.taken.append(d)
        ctx.add(cond if d else z3.Not(cond))
        return d
    # use the cached model to learn one feasible side for free
    m = ctx.get_model()
    side = z3.is_true(m.eval(cond, model_completion=True))
    other = z3.Not(cond) if side else cond
    ok, m2 = ctx.feasible(other)
    if ok:
        # follow True first (arbitrary but fixed), queue the other
        ctx.newforks.append(ctx.taken + [False])
        ctx.taken.append(True)
        keep = m if side else m2
        ctx.pc.append(cond)
        ctx.solver.add(cond)
        ctx.model = keep
        return True
    ctx.taken.append(side)
    c = cond if side else z3.Not(cond)
    ctx.pc.append(c)
    ctx.solver.add(c)
    return side


def assume(c):
    """Constrain the path (placed before the code it constrains)."""
    if isinstance(c, (SymBool, SymNum)):
        c = zbool(c)
    if isinstance(c, bool):
        if not c:
            raise Cut("assume false")
        return
    cur().add(c)


def check_feasible():
    """Drop the path if its condition became unsatisfiable (after a batch of assumes)."""
    cur().get_model()


def explore(fn, prefixes=((),), max_paths=None, deadline=None):
    """Run fn() over every feasible path below the given prefixes.

    fn() returns an arbitrary result (it discharges its own obligations while the path's solver is
    alive).  Returns (results, leftover_prefixes): leftover is non-empty only if max_paths/deadline
    stopped the exploration -- the caller must then resubmit them (or report inconclusive).
    A result is (taken_log, value, exception_or_None).
    """
    global CUR
    work = [list(p) for p in prefixes]
    out = []
    n = 0
    while work:
        if (max_paths is not None and n >= max_paths) or \
           (deadline is not None and time.time() > deadline):
            break
        prefix = work.pop()
        for hook in PATH_RESET_HOOKS:
            hook()
        ctx = Ctx(prefix)
        CUR = ctx
        try:
            res = fn()
            out.append((ctx.taken, res, None))
        except Cut:
            STATS['cuts'] += 1
        except (EngineUnsupported, Inconclusive):
            raise
        except Exception as e:   # raised by the code under test (or the harness): an outcome
            out.append((ctx.taken, None, e))
        finally:
            CUR = None
        work.extend(ctx.newforks)
        n += 1
        STATS['paths'] += 1
    return out, work


# ------------------------------------------------------------------ proxies

def is_sym(x):
    return isinstance(x, (SymBool, SymNum))


def tobool(x):
    if isinstance(x, SymBool):
        return x
    if isinstance(x, SymNum):
        return SymBool(x.z != 0)
    return bool(x)


def zbool(x):
    x = tobool(x)
    return x.z if isinstance(x, SymBool) else z3.BoolVal(x)


class SymBool:
    __slots__ = ('z',)
    __array_ufunc__ = None

    def __init__(self, z):
        self.z = z

    def __bool__(self):
        return branch(self.z)

    def __invert__(self):
        return SymBool(z3.Not(self.z))

    def __and__(self, o):
        return SymBool(z3.And(self.z, zbool(o)))
    __rand__ = __and__

    def __or__(self, o):
        return SymBool(z3.Or(self.z, zbool(o)))
    __ror__ = __or__

    def __eq__(self, o):
        if isinstance(o, (SymBool, bool)):
            return SymBool(self.z == zbool(o))
        return to_num(self) == o

    def __ne__(self, o):
        return ~(self == o)

    def __hash__(self):
        return hash(bool(self))

    def __int__(self):
        return 1 if branch(self.z) else 0
    __index__ = __int__

    def __float__(self):
        return 1.0 if branch(self.z) else 0.0

    # arithmetic on bools goes through ints
    def __add__(self, o):
        return to_num(self) + o
    __radd__ = __add__

    def __sub__(self, o):
        return to_num(self) - o

    def __rsub__(self, o):
        return o - to_num(self)

    def __mul__(self, o):
        return to_num(self) * o
    __rmul__ = __mul__

    def __lt__(self, o):
        return to_num(self) < o

    def __le__(self, o):
        return to_num(self) <= o

    def __gt__(self, o):
        return to_num(self) > o

    def __ge__(self, o):
        return to_num(self) >= o

    def __repr__(self):
        return "SymBool(%s)" % self.z

    def __format__(self, spec):
        return format(repr(self), 's')


def to_num(x):
    if isinstance(x, SymNum):
        return x
    if isinstance(x, SymBool):
        return SymNum(z3.If(x.z, z3.IntVal(1), z3.IntVal(0)))
    raise TypeError(x)


def znum(x):
    """python/numpy number or proxy -> z3 arithmetic term"""
    if isinstance(x, SymNum):
        return x.z
    if isinstance(x, SymBool):
        return to_num(x).z
    if isinstance(x, bool):
        return z3.IntVal(int(x))
    if isinstance(x, int):
        return z3.IntVal(int.__index__(x))
    import numpy as _np
    if isinstance(x, _np.bool_):
        return z3.IntVal(int(x))
    if isinstance(x, _np.integer):
        return z3.IntVal(int(x))
    if isinstance(x, (float, _np.floating)):
        f = float(x)
        if f != f or f in (float('inf'), float('-inf')):
            raise TypeError("znum: non-finite float")
        return z3.RealVal(Fraction(f))
    if isinstance(x, Fraction):
        return z3.RealVal(x)
    if z3.is_expr(x):
        return x
    raise TypeError("znum: %s" % type(x))


def _coerce(a, b):
    if a.sort() == b.sort():
        return a, b
    if a.sort() == z3.IntSort():
        a = z3.ToReal(a)
    if b.sort() == z3.IntSort():
        b = z3.ToReal(b)
    return a, b


def _is_inf(o):
    return isinstance(o, float) and o in (float('inf'), float('-inf'))


class SymNum:
    __slots__ = ('z',)
    __array_ufunc__ = None

    def __init__(self, z):
        self.z = z

    @property
    def is_int(self):
        return self.z.sort() == z3.IntSort()

    def _bin(self, o, f):
        try:
            a, b = _coerce(self.z, znum(o))
        except TypeError:
            return NotImplemented
        return f(a, b)

    def __add__(self, o):
        r = self._bin(o, lambda a, b: a + b)
        return r if r is NotImplemented else SymNum(r)
    __radd__ = __add__

    def __sub__(self, o):
        r = self._bin(o, lambda a, b: a - b)
        return r if r is NotImplemented else SymNum(r)

    def __rsub__(self, o):
        r = self._bin(o, lambda a, b: b - a)
        return r if r is NotImplemented else SymNum(r)

    def __mul__(self, o):
        r = self._bin(o, lambda a, b: a * b)
        return r if r is NotImplemented else SymNum(r)
    __rmul__ = __mul__

    def __neg__(self):
        return SymNum(-self.z)

    def __pos__(self):
        return self

    def _cmp(self, o, f, inf_pos, inf_neg):
        if _is_inf(o):
            return inf_pos if o > 0 else inf_neg
        r = self._bin(o, f)
        return r if r is NotImplemented else SymBool(r)

    def __lt__(self, o):
        return self._cmp(o, lambda a, b: a < b, True, False)

    def __le__(self, o):
        return self._cmp(o, lambda a, b: a <= b, True, False)

    def __gt__(self, o):
        return self._cmp(o, lambda a, b: a > b, False, True)

    def __ge__(self, o):
        return self._cmp(o, lambda a, b: a >= b, False, True)

    def __eq__(self, o):
        if o is None or isinstance(o, (str, tuple, list, dict)):
            return False
        return self._cmp(o, lambda a, b: a == b, False, False)

    def __ne__(self, o):
        if o is None or isinstance(o, (str, tuple, list, dict)):
            return True
        return self._cmp(o, lambda a, b: a != b, True, True)

    def __bool__(self):
        return branch(self.z != 0)

    def concretize(self):
        ctx = cur()
        while True:
            i = len(ctx.taken)
            if i < len(ctx.prefix):
                d = ctx.prefix[i]
                if d is True or d is False:
                    raise EngineUnsupported("decision log out of sync (concretize)")
                kind, v = d
                ctx.taken.append((kind, v))
                zv = z3.IntVal(v) if self.is_int else z3.RealVal(v)
                if kind == 'C':
                    ctx.add(self.z == zv)
                    return v if self.is_int else float(Fraction(v))
                ctx.add(self.z != zv)
                continue
            m = ctx.get_model()
            zv = m.eval(self.z, model_completion=True)
            v = zv.as_long() if self.is_int else str(zv.as_fraction())
            ok, _m2 = ctx.feasible(self.z != zv)
            if ok:
                ctx.newforks.append(ctx.taken + [('N', v)])
            ctx.taken.append(('C', v))
            ctx.pc.append(self.z == zv)
            ctx.solver.add(self.z == zv)
            return v if self.is_int else float(Fraction(v))

    def __int__(self):
        return int(self.concretize())
    __index__ = __int__

    def __float__(self):
        return float(self.concretize())

    def __hash__(self):
        return hash(self.concretize())

    def __truediv__(self, o):
        try:
            a, b = _coerce(self.z, znum(o))
        except TypeError:
            return NotImplemented
        return _div(a, b)

    def __rtruediv__(self, o):
        try:
            a, b = _coerce(znum(o), self.z)
        except TypeError:
            return NotImplemented
        return _div(a, b)

    def __floordiv__(self, o):
        a, b = self.z, znum(o)
        if a.sort() != z3.IntSort() or b.sort() != z3.IntSort():
            raise EngineUnsupported("floordiv on reals")
        if branch(b == 0):
            raise ZeroDivisionError("integer division or modulo by zero")
        if not branch(b > 0):
            raise EngineUnsupported("floordiv by negative")
        return SymNum(a / b)     # z3 int div == floor for positive divisors

    def __rfloordiv__(self, o):
        return SymNum(znum(o)).__floordiv__(self)

    def __mod__(self, o):
        a, b = self.z, znum(o)
        if a.sort() != z3.IntSort() or b.sort() != z3.IntSort():
            raise EngineUnsupported("mod on reals")
        if branch(b == 0):
            raise ZeroDivisionError("integer division or modulo by zero")
        if not branch(b > 0):
            raise EngineUnsupported("mod by negative")
        return SymNum(a % b)

    def __rmod__(self, o):
        return SymNum(znum(o)).__mod__(self)

    def __abs__(self):
        return SymNum(z3.If(self.z >= 0, self.z, -self.z))

    def __round__(self, n=None):
        """round-half-even, as Python does on exactly representable (dyadic) values"""
        if self.is_int:
            return self
        scale = 10 ** (n or 0)
        y = self.z * scale
        f = z3.ToInt(y)
        frac = y - z3.ToReal(f)
        half = z3.RealVal(1) / 2
        r = z3.If(frac > half, f + 1, z3.If(frac < half, f, z3.If(f % 2 == 0, f, f + 1)))
        if n is None:
            return SymNum(r)
        return SymNum(z3.ToReal(r) / scale)

    def __repr__(self):
        return "SymNum(%s)" % self.z

    def __format__(self, spec):
        # formatting is never the subject; never fork on it
        return "<sym>"


class SymNpInt(SymNum):
    """a symbolic integer carried by a numpy integer scalar (what Discrete.sample() returns):
    the value is symbolic, the carrier type is what isinstance() sees"""
    __slots__ = ('carrier',)

    def __init__(self, z, carrier='int64'):
        SymNum.__init__(self, z)
        self.carrier = carrier


def _div(a, b):
    if a.sort() == z3.IntSort():
        a = z3.ToReal(a)
        b = z3.ToReal(b)
    if branch(b == 0):
        raise ZeroDivisionError("division by zero")
    return SymNum(a / b)


# ------------------------------------------------------------------ constructors

def fresh(prefix):
    c = cur()
    c.nfresh += 1
    return "%s!%d" % (prefix, c.nfresh)


def Bool(name):
    return SymBool(z3.Bool(name))


def Int(name, lo=None, hi=None):
    v = z3.Int(name)
    if lo is not None:
        cur().add(v >= lo)
    if hi is not None:
        cur().add(v <= hi)
    return SymNum(v)


def Real(name, lo=None, hi=None):
    v = z3.Real(name)
    if lo is not None:
        cur().add(v >= lo)
    if hi is not None:
        cur().add(v <= hi)
    return SymNum(v)


def Quarter(name, lo4=-400, hi4=400):
    """a dyadic rational k/4 with lo4 <= k <= hi4 (exact in float32)"""
    k = z3.Int(name + "_x4")
    cur().add(k >= lo4)
    cur().add(k <= hi4)
    return SymNum(z3.ToReal(k) / 4)


def ite(c, a, b):
    c = zbool(c)
    if z3.is_true(c):
        return a
    if z3.is_false(c):
        return b
    za, zb = _coerce(znum(a), znum(b))
    return SymNum(z3.If(c, za, zb))


# ------------------------------------------------------------------ obligations

def valid(claim, ctx=None, obligation=False):
    """Is claim (z3 Bool) implied by the path condition?  -> (True, None) | (False, model)"""
    ctx = ctx or cur()
    claim = z3.simplify(claim) if z3.is_expr(claim) else z3.BoolVal(bool(claim))
    if z3.is_true(claim):
        STATS['checks'] += 1
        return True, None
    ctx.solver.push()
    try:
        ctx.solver.add(z3.Not(claim))
        r = _check(ctx.solver)
        m = ctx.solver.model() if r == z3.sat else None
        if CROSS_EVERY:
            _cross_counter[0] += 1
            if _cross_counter[0] % CROSS_EVERY == 0 or (obligation and r == z3.sat):
                # second opinion: the same query (path condition and negated obligation) as
                # SMT-LIB2 text, decided by cvc5; a disagreement is never a verdict
                t0 = time.perf_counter()
                try:
                    v = _cvc5_verdict(ctx.solver.to_smt2())
                except Exception as e:      # noqa
                    v = 'error: %r' % (e,)
                STATS['cross_s'] += time.perf_counter() - t0
                STATS['cross'] += 1
                if v == str(r):
                    STATS['cross_agree'] += 1
                elif v in ('sat', 'unsat'):
                    raise Inconclusive("solver disagreement: z3 says %s, cvc5 says %s" % (r, v))
                else:
                    STATS.setdefault('cross_inconclusive', 0)
                    STATS['cross_inconclusive'] = STATS.get('cross_inconclusive', 0) + 1
    finally:
        ctx.solver.pop()
    return r == z3.unsat, m


def model_dict(m, extra_terms=None):
    """z3 model -> plain python dict name -> int | 'p/q' | bool"""
    d = {}
    for decl in m.decls():
        if decl.arity() != 0:
            continue
        v = m[decl]
        d[decl.name()] = _val(v)
    if extra_terms:
        for k, t in extra_terms.items():
            d[k] = _val(m.eval(t, model_completion=True))
    return d


def _val(v):
    if z3.is_true(v):
        return True
    if z3.is_false(v):
        return False
    if z3.is_int_value(v):
        return v.as_long()
    if z3.is_rational_value(v):
        fr = v.as_fraction()
        return int(fr) if fr.denominator == 1 else "%d/%d" % (fr.numerator, fr.denominator)
    if z3.is_algebraic_value(v):
        return str(v.approx(10))
    return str(v)
