"""dyn -- the dynamic harness shared by C01..C08, C12, C13.

dyn(shape, action kind, target, names): build the symbolic scenario, the real Network / State (or
the real NASimEnv), overwrite the status cells with state variables, assume V and Inv, build the
real Action object, call the function under test and collect everything that came back as z3
terms over the inputs.
"""
import z3

from . import symex as sx
from . import scen, spec, stubs, npmodel, inject, hidden
from .scen import Shape

import nasim.envs.network as m_net
import nasim.envs.state as m_state
import nasim.envs.environment as m_env


class Rec:
    pass


def tensor_rows(t):
    """2-D tensor (model or numpy) -> list of rows of z3 terms"""
    if isinstance(t, npmodel.SArray):
        return [[sx.znum(c) for c in t[i].cells()] for i in range(t.shape[0])]
    return [[sx.znum(c) for c in row] for row in t]


def result_fields(res):
    return dict(success=sx.zbool(res.success), value=spec.real(sx.znum(res.value)),
                conn=sx.zbool(res.connection_error), perm=sx.zbool(res.permission_error),
                undef=sx.zbool(res.undefined_error))


def scenario_actions(w, A, decoys=False):
    """put the action under test into the scenario definition so that action spaces contain it;
    decoys: further definitions for the same OS on the other services / processes"""
    import nasim.scenarios.utils as u
    if decoys:
        other_os = [o for o in w.oss if o != A.os]
        if A.kind == 'exploit' and other_os:
            w.scenario_dict[u.EXPLOITS]['e_decoy_same_service'] = {
                u.EXPLOIT_SERVICE: A.name, u.EXPLOIT_OS: other_os[0] if A.os is not None else w.oss[0],
                u.EXPLOIT_PROB: 0.5, u.EXPLOIT_COST: 6, u.EXPLOIT_ACCESS: 1}
        for s_ in w.services:
            if not (A.kind == 'exploit' and s_ == A.name):
                w.scenario_dict[u.EXPLOITS]['e_decoy_' + s_] = {
                    u.EXPLOIT_SERVICE: s_, u.EXPLOIT_OS: A.os if A.kind == 'exploit' else None,
                    u.EXPLOIT_PROB: 0.5, u.EXPLOIT_COST: 7, u.EXPLOIT_ACCESS: 1}
        if A.kind == 'privesc' and other_os:
            w.scenario_dict[u.PRIVESCS]['pe_decoy_same_process'] = {
                u.PRIVESC_PROCESS: A.name, u.PRIVESC_OS: other_os[0] if A.os is not None else w.oss[0],
                u.PRIVESC_PROB: 0.5, u.PRIVESC_COST: 8, u.PRIVESC_ACCESS: 2}
        for p_ in w.procs:
            if not (A.kind == 'privesc' and p_ == A.name):
                w.scenario_dict[u.PRIVESCS]['pe_decoy_' + p_] = {
                    u.PRIVESC_PROCESS: p_, u.PRIVESC_OS: A.os if A.kind == 'privesc' else None,
                    u.PRIVESC_PROB: 0.5, u.PRIVESC_COST: 9, u.PRIVESC_ACCESS: 2}
    if A.kind == 'exploit':
        w.scenario_dict[u.EXPLOITS]['e_x'] = {
            u.EXPLOIT_SERVICE: A.name, u.EXPLOIT_OS: A.os, u.EXPLOIT_PROB: A.prob,
            u.EXPLOIT_COST: A.cost, u.EXPLOIT_ACCESS: A.grant}
    elif A.kind == 'privesc':
        w.scenario_dict[u.PRIVESCS]['pe_x'] = {
            u.PRIVESC_PROCESS: A.name, u.PRIVESC_OS: A.os, u.PRIVESC_PROB: A.prob,
            u.PRIVESC_COST: A.cost, u.PRIVESC_ACCESS: A.grant}
    # a fresh Scenario object over the completed definition (nothing may rely on the Scenario
    # reading its dictionary lazily)
    from nasim.scenarios.scenario import Scenario
    w.scenario = Scenario(w.scenario_dict, name="sym")


def run(src, q):
    """q: shape, kind, target, name, os, level in {'net','gen','step'}, sens, fully_obs, flat_obs,
    flat_actions, req_sym, steps_sym, limit ('none'|'sym'), other_state (generative step on a
    state object different from the current one)"""
    shape = Shape.from_json(q['shape'])
    kind, target = q['kind'], tuple(q['target'])
    level = q.get('level', 'net')
    sens = [tuple(a) for a in q['sens']] if q.get('sens') else None
    symbolic = src.symbolic
    limit = None
    if q.get('limit') == 'sym':
        limit = src.int('limit', 1, None)
    decode = q.get('decode')        # None | 'flat' | 'param': pass the action the way users do
    costs = symbolic_scan_costs(src) if decode else None
    w = scen.build_world(src, shape, sens=sens, step_limit=limit,
                         host_fw=q.get('host_fw', True), scan_costs=costs,
                         host_order=q.get('host_order'))
    scan_cost = costs[kind[:-5]] if (decode and kind.endswith('_scan')) else None
    A = scen.make_action(w, kind, target, q.get('name'), q.get('os'),
                         req_symbolic=q.get('req_sym', True) and not decode, cost=scan_cost)
    r = Rec()
    r.q, r.w, r.A = q, w, A
    r.limit = limit
    draws = []
    if not symbolic:
        i = 0
        while ("u%d" % i) in src.m:
            draws.append(src.real("u%d" % i))
            i += 1
    scripted = stubs.ScriptedRand(draws, default=0.0)

    if level == 'net':
        net = m_net.Network(w.scenario)
        with stubs.sut():
            state = m_state.State.generate_initial_state(net)
        env = None
    else:
        scenario_actions(w, A)
        with stubs.sut():
            env = m_env.NASimEnv(w.scenario, fully_obs=q.get('fully_obs', False),
                                 flat_actions=(decode != 'param') and q.get('flat_actions', True),
                                 flat_obs=q.get('flat_obs', True))
        net = env.network
        state = env.current_state
        if decode:
            A.arg = encode(env, w, A, decode == 'flat')
        if q.get('other_state'):
            state = state.copy()
    r.env, r.net, r.state = env, net, state
    if env is not None and q.get('steps_sym'):
        env.steps = src.int('steps', 0, None)
    with scripted:
        _call(src, q, r, w, A, env, net, state, level, "", scripted, draws, 0)
        if r.hidden_changed and not q.get('no_second_call'):
            # the induction premise (no memory outside the state) is broken: make a second call
            # on the same objects from a fresh arbitrary Inv-state
            r2 = Rec()
            r2.q, r2.w, r2.A, r2.limit = q, w, A, r.limit
            state2 = state.copy() if level != 'step' else env.current_state.copy()
            if level == 'step':
                env.current_state = state2
            n0 = len(sx.cur().draws) if symbolic else scripted.calls
            _call(src, q, r2, w, A, env, net, state2, level, "y", scripted, draws, n0)
            r.second = r2
    return r


def _call(src, q, r, w, A, env, net, state, level, tag, scripted, draws, ndraws0):
    """put the (tagged) symbolic status into `state`, call the function under test, collect"""
    symbolic = src.symbolic
    r.env, r.net, r.state = env, net, state
    r.pre = scen.symbolic_state(w, state, tag=tag)
    r.st = scen.zstatus(r.pre)
    if symbolic:
        sx.assume(scen.inv(w, r.st))
        sx.check_feasible()
    r.pre_rows = tensor_rows(state.tensor)
    r.steps0 = None
    if env is not None:
        r.steps0 = sx.znum(env.steps)
        r.cur_rows0 = tensor_rows(env.current_state.tensor)
        r.lastobs_rows0 = tensor_rows(env.last_obs.tensor)
        r.cur_obj0, r.lastobs_obj0 = env.current_state, env.last_obs
    r.lim = None
    if q.get('bound_first') and env is not None:
        with stubs.sut():
            env.get_score_upper_bound()
            env.get_minimum_hops()
    if q.get('goal_query') and env is not None:
        with stubs.sut():
            r.goal_cur = env.goal_reached()
            r.goal_pre = env.goal_reached(state)
    objs = dict(net=net, scenario=w.scenario, action=A.obj)
    skip = set()
    if env is not None:
        objs['env'] = env
        skip = {('env', 'np_random'), ('env', '_np_random'), ('env', '_np_random_seed')}
        if level == 'step':
            skip |= {('env', 'current_state'), ('env', 'last_obs'), ('env', 'steps')}
    for a_, h_ in list(w.hosts.items())[:6]:
        objs['host%d_%d' % a_] = h_
    _ = (w.scenario.exploit_map, w.scenario.privesc_map)      # documented lazy memo: warm it
    before = hidden.snapshot(objs, skip)
    with stubs.sut():
        if level == 'net':
            ns, res = net.perform_action(state, A.obj)
            r.obs = r.reward = r.done = r.info = None
        elif level == 'gen':
            ns, obs, reward, done, info = env.generative_step(state, getattr(A, 'arg', A.obj))
            r.obs, r.reward, r.done, r.info = obs, reward, done, info
            res = None
        else:
            obs_arr, reward, done, lim, info = env.step(getattr(A, 'arg', A.obj))
            ns = env.current_state
            r.obs_arr, r.obs, r.reward, r.done, r.lim, r.info = \
                obs_arr, env.last_obs, reward, done, lim, info
            res = None
    r.hidden_changed = hidden.diff(before, hidden.snapshot(objs, skip))
    r.second = None
    r.ns = ns
    r.post_rows = tensor_rows(ns.tensor)
    r.state_rows_after = tensor_rows(state.tensor)
    r.post = scen.read_status(w, ns)
    if env is not None:
        r.steps1 = sx.znum(env.steps)
        r.cur_rows1 = tensor_rows(env.current_state.tensor)
        r.lastobs_rows1 = tensor_rows(env.last_obs.tensor)
    if res is not None:
        r.res = result_fields(res)
        r.res_obj = res
    else:
        r.res = dict(success=sx.zbool(info['success']), value=spec.real(sx.znum(info['value'])),
                     conn=sx.zbool(info['connection_error']), perm=sx.zbool(info['permission_error']),
                     undef=sx.zbool(info['undefined_error']))
        r.res_obj = None
    if symbolic:
        alld = sx.cur().draws
        r.ndraws = len(alld) - ndraws0
        r.u = alld[ndraws0] if len(alld) > ndraws0 else None
    else:
        r.ndraws = scripted.calls - ndraws0
        r.u = draws[ndraws0] if len(draws) > ndraws0 else (0.0 if r.ndraws else None)
    r.step = spec.Step(w, r.pre, A, r.u)


def base_queries(tier, level='net', kinds=scen.KINDS, extra=None):
    """The query grid: shapes x kinds x targets x names.  quick = representative targets (first and
    last host) and names; thorough = every target / name and the larger shapes."""
    if tier == 'quick':
        shapes = [Shape([1, 1], 2, 2, 1), Shape([2, 1], 2, 2, 1), Shape([1, 1, 1], 2, 2, 1)]
    else:
        shapes = [Shape([1, 1], 2, 2, 2), Shape([2, 1], 2, 2, 2), Shape([1, 2], 2, 2, 1),
                  Shape([1, 1, 1], 2, 2, 2), Shape([2, 1, 1], 2, 2, 1)]
    qs = []
    for sh in shapes:
        addrs = sh.addrs
        targets = [addrs[0], addrs[-1]] if tier == 'quick' else addrs
        srv = ["s%d" % (sh.S - 1)] if tier == 'quick' else ["s%d" % i for i in range(sh.S)]
        prc = ["p%d" % (sh.P - 1)] if tier == 'quick' else ["p%d" % i for i in range(sh.P)]
        oss = [None, "o%d" % (sh.O - 1)] if tier == 'quick' else [None] + ["o%d" % i for i in range(sh.O)]
        for kind in kinds:
            if kind == 'noop':
                qs.append(dict(shape=sh.to_json(), kind=kind, target=[1, 0], level=level))
                continue
            for t in targets:
                if kind == 'exploit':
                    names = [(s, o) for s in srv for o in oss]
                elif kind == 'privesc':
                    names = [(p, o) for p in prc for o in oss]
                else:
                    names = [(None, None)]
                for (nm, o) in names:
                    d = dict(shape=sh.to_json(), kind=kind, target=list(t), name=nm, os=o, level=level)
                    if list(sh.sizes) == [2, 1]:
                        d['host_order'] = 'reversed'      # scenario lists its hosts in another order
                    if extra:
                        d.update(extra)
                    qs.append(d)
    return qs


TYPE_IDX = dict(exploit=0, privesc=1, service_scan=2, os_scan=3, subnet_scan=4, process_scan=5)


def encode(env, w, A, flat):
    """the action as a user of that action mode passes it: flat index or parameter vector"""
    if flat:
        for i, a in enumerate(env.action_space.actions):
            if type(a) is type(A.obj) and tuple(a.target) == tuple(A.target) and \
               getattr(a, 'name', None) == A.obj.name:
                return i
        raise RuntimeError("action under test not in the flat space")
    t = A.target
    osi = 0 if A.os is None else w.oss.index(A.os) + 1
    srv = w.services.index(A.name) if A.kind == 'exploit' else 0
    prc = w.procs.index(A.name) if A.kind == 'privesc' else 0
    return [TYPE_IDX[A.kind], t[0] - 1, t[1], osi, srv, prc]


def symbolic_scan_costs(src):
    return dict(service=src.quarter('c_service', 0, 400), os=src.quarter('c_os', 0, 400),
                subnet=src.quarter('c_subnet', 0, 400), process=src.quarter('c_process', 0, 400))


EXTRA_STUBS = [(m_env, 'spaces', stubs.SpacesModel)]
