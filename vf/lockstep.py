"""lockstep -- translator validation (DESIGN 2.8): the real environment on real numpy and the same
environment on the array model + virtual builtins (all cells concrete) are driven along the same
action sequence with the same scripted draws; tensors, observations, rewards, flags and info must
be identical.  A mismatch is a harness error, never a verdict."""
import random as _pyrandom

import numpy as _np

from . import inject, npmodel, stubs

import nasim
import nasim.envs.environment as m_env
from nasim.scenarios import load_scenario, generate_scenario
from nasim.scenarios.benchmark import AVAIL_STATIC_BENCHMARKS

SCENARIOS = ['tiny', 'tiny-hard', 'tiny-small', 'small', 'small-linear']


class _Scripted:
    def __init__(self, vals):
        self.vals = vals
        self.i = 0

    def rand(self):
        v = self.vals[self.i % len(self.vals)]
        self.i += 1
        return v

    def random(self, size=None):
        return self.rand()

    random_sample = random

    def uniform(self, low=0.0, high=1.0, size=None):
        return low + (high - low) * self.rand()

    def seed(self, s=None):
        pass


def _plain(x):
    if isinstance(x, npmodel.SArray):
        return npmodel.to_real(x)
    if isinstance(x, _np.ndarray):
        return x.copy()         # what the environment returned at that moment
    return x


def _info_plain(info):
    out = {}
    for k, v in info.items():
        if isinstance(v, dict):
            out[k] = {kk: (float(vv) if not isinstance(vv, bool) else vv) for kk, vv in v.items()}
        else:
            out[k] = float(v) if not isinstance(v, (bool, _np.bool_)) else bool(v)
    return out


def _trajectory(make_env, actions, draws, modelled, steps_cap):
    rec = []
    saved_random = npmodel.random
    scripted = _Scripted(draws)
    if modelled:
        inject.install([(m_env, 'spaces', stubs.SpacesModel)])
        npmodel.random = scripted
    orig = _np.random.rand
    orig_more = {k: getattr(_np.random, k) for k in ('random', 'random_sample', 'uniform')}
    _np.random.rand = scripted.rand
    _np.random.random = scripted.random
    _np.random.random_sample = scripted.random
    _np.random.uniform = scripted.uniform
    try:
        env = make_env()
        o, _ = env.reset()
        rec.append(('reset', _plain(o)))
        n = env.action_space.n if hasattr(env.action_space, 'n') else None
        for k in range(steps_cap):
            a = env.action_space.actions[actions[k] % len(env.action_space.actions)]
            o, r, done, lim, info = env.step(a)
            rec.append(('step', _plain(o), float(r), type(r).__name__ if not modelled else None,
                        bool(done), bool(lim), _info_plain(info),
                        _plain(env.current_state.tensor).copy()))
            if done or lim:
                o, _ = env.reset()
                rec.append(('reset', _plain(o)))
    finally:
        _np.random.rand = orig
        for k_, v_ in orig_more.items():
            setattr(_np.random, k_, v_)
        if modelled:
            npmodel.random = saved_random
            inject.uninstall()
    return rec


def _same(a, b):
    if isinstance(a, _np.ndarray) or isinstance(b, _np.ndarray):
        return isinstance(a, _np.ndarray) and isinstance(b, _np.ndarray) and a.dtype == b.dtype \
            and a.shape == b.shape and _np.array_equal(a, b)
    if isinstance(a, tuple):
        return len(a) == len(b) and all(_same(x, y) for x, y in zip(a, b))
    return a == b


def validate(seed, report=None, steps=120):
    rng = _pyrandom.Random(seed)
    total = 0
    for name in SCENARIOS:
        path = AVAIL_STATIC_BENCHMARKS[name]['file']
        for modes in ((False, True, True), (True, True, False)):
            fo, fa, fob = modes
            actions = [rng.randrange(10 ** 6) for _ in range(steps)]
            # bias towards useful actions: brute force order prefix
            actions[:40] = list(range(40))
            draws = [rng.random() for _ in range(97)]
            mk = lambda: nasim.envs.NASimEnv(load_scenario(path), fully_obs=fo, flat_actions=fa,
                                            flat_obs=fob)
            from . import hidden
            hidden.restore()        # both runs start from the same process-wide state
            real = _trajectory(mk, actions, draws, False, steps)
            hidden.restore()
            model = _trajectory(mk, actions, draws, True, steps)
            hidden.restore()
            if len(real) != len(model):
                raise RuntimeError("lock-step: trajectory lengths differ on %s" % name)
            for i, (x, y) in enumerate(zip(real, model)):
                x2 = tuple(v for j, v in enumerate(x) if not (x[0] == 'step' and j == 3))
                y2 = tuple(v for j, v in enumerate(y) if not (y[0] == 'step' and j == 3))
                if not _same(x2, y2):
                    raise RuntimeError("lock-step mismatch on %s %s at event %d:\nreal=%r\nmodel=%r"
                                       % (name, modes, i, x2, y2))
            total += len(real)
    return total
