"""runner -- generic orchestration: queries -> parallel symbolic exploration -> obligations ->
counterexample replay on the real code -> verdict, evidence, exit code.

A property module provides
    ID, TITLE, queries(tier, seed), run(src, q), obligations(rec) -> [(name, z3 formula)],
    witnesses(rec) -> [names], REQUIRED_WITNESSES, EXTRA_STUBS, needs_reach (bool),
    STUBS / ASSUMPTIONS / BOUNDS (texts for the evidence)
and optionally replay_confirm(model, q, obligation) for special replays.
"""
import importlib
import json
import multiprocessing as mp
import os
import sys
import time
import traceback

EXIT_OK, EXIT_VIOLATION, EXIT_HARNESS = 0, 1, 2
VERIF = os.path.dirname(os.path.dirname(os.path.abspath(__file__)))
NPROC = int(os.environ.get('VERIF_JOBS', '16'))


# ------------------------------------------------------------------ worker side

_PROFILE_FUNCS = None
_REPO_PREFIX = os.environ.get('VERIF_REPO', '/repo').rstrip('/') + '/nasim'


def _profiler(frame, event, arg):
    if event == 'call':
        co = frame.f_code
        fn = co.co_filename
        if fn.startswith(_REPO_PREFIX):
            _PROFILE_FUNCS.add("%s:%s" % (fn[len(_REPO_PREFIX) - 5:], co.co_qualname))


def worker(task):
    """explore one query (below the given prefixes) and discharge its obligations"""
    global _PROFILE_FUNCS
    modname, q, prefixes, max_paths, want_profile = task
    t0 = time.time()
    out = dict(q=q, paths=0, obligations=0, failures=[], witnesses={}, leftover=[], error=None,
               samples=[], functions=[], nontrivial=0, exc_paths=0)
    try:
        import z3
        from . import symex as sx, inject, scen, stubs
        mod = importlib.import_module(modname)
        inject.install(getattr(mod, 'EXTRA_STUBS', None))
        sx.reset_stats()
        first = [want_profile]
        nfail = [0]
        ncross = [0]

        def fn():
            src = scen.SymSource()
            prof = first[0]
            first[0] = False
            global _PROFILE_FUNCS
            if prof:
                _PROFILE_FUNCS = set()
                sys.setprofile(_profiler)
            try:
                try:
                    rec = mod.run(src, q)
                    exc = None
                except stubs.SutException as e:
                    rec, exc = None, e
            finally:
                if prof:
                    sys.setprofile(None)
            ctx = sx.cur()
            res = dict(nobl=0, fails=[], wit=[], exc=None, pcsize=len(ctx.pc))
            if exc is not None:
                res['exc'] = repr(exc.exc)
                allowed = getattr(mod, 'exception_allowed', None)
                if allowed is not None and allowed(q, exc.exc):
                    res['wit'] = ['allowed_exception']
                    if hasattr(mod, 'cross_check') and ncross[0] < 2:
                        ncross[0] += 1
                        m = sx.model_dict(ctx.get_model())
                        saved_cur = sx.CUR
                        inject.uninstall()
                        sx.CUR = None
                        try:
                            okc = mod.cross_check(q, m)
                        finally:
                            sx.CUR = saved_cur
                            inject.install(getattr(mod, 'EXTRA_STUBS', None))
                        if okc:
                            res['wit'].append('rejection_confirmed_on_real_code')
                        else:
                            raise sx.EngineUnsupported(
                                "symbolic path raised %r but the real code accepts the same inputs %r"
                                % (exc.exc, m))
                else:
                    m = ctx.get_model()
                    res['fails'].append(('no_exception', sx.model_dict(m), repr(exc.exc)))
                res['nobl'] = 1
                return res
            obls = mod.obligations(rec)
            second = getattr(rec, 'second', None)
            if second is not None:
                # hidden state was modified by the call: same obligations for the second call
                obls = list(obls) + [(n + '@second_call', f) for n, f in mod.obligations(second)]
                res['wit'].append('second_call')
            for name, f in obls:
                res['nobl'] += 1
                ok, m = sx.valid(f, obligation=True)
                if not ok:
                    if nfail[0] < 25 and hasattr(mod, 'prefer'):
                        m = _prefer_model(ctx, f, mod.prefer(rec), m)
                    nfail[0] += 1
                    res['fails'].append((name, sx.model_dict(m), None))
            res['wit'] = res['wit'] + list(mod.witnesses(rec))
            if len(out['samples']) < 2:
                m = ctx.get_model()
                out['samples'].append(dict(
                    query=q, decisions=len(ctx.taken), pc_conjuncts=len(ctx.pc),
                    obligations=[n for n, _ in obls][:12],
                    path_model={k: v for k, v in list(sx.model_dict(m).items())[:24]}))
            return res

        results, leftover = sx.explore(fn, prefixes=prefixes, max_paths=max_paths)
        for taken, res, exc in results:
            out['paths'] += 1
            if exc is not None:
                # exception raised by the harness itself -> harness error
                out['error'] = "harness exception: %r\n%s" % (
                    exc, ''.join(traceback.format_exception(exc)))
                break
            out['obligations'] += res['nobl']
            if res['pcsize'] > 0:
                out['nontrivial'] += 1
            if res['exc']:
                out['exc_paths'] += 1
            for w_ in res['wit']:
                out['witnesses'][w_] = out['witnesses'].get(w_, 0) + 1
            for (name, model, note) in res['fails']:
                if len(out['failures']) < 40:
                    out['failures'].append(dict(obligation=name, model=model, note=note, q=q,
                                                log=_jsonable_log(taken)))
                else:
                    out.setdefault('more_failures', 0)
                    out['more_failures'] += 1
        out['leftover'] = [_jsonable_log(p) for p in leftover]
        out['stats'] = dict(sx.STATS)
        if _PROFILE_FUNCS:
            out['functions'] = sorted(_PROFILE_FUNCS)
    except BaseException as e:       # EngineUnsupported, Inconclusive, bugs
        out['error'] = "%s: %s\n%s" % (type(e).__name__, e, traceback.format_exc())
    out['wall'] = time.time() - t0
    return out


def _prefer_model(ctx, claim, prefs, m):
    """counterexample extraction with soft preferences (greedy, in priority order): keeps the
    violation but steers the model towards simple, reachable-looking inputs"""
    import z3
    s = ctx.solver
    depth = 0
    try:
        s.push()
        depth += 1
        s.add(z3.Not(claim))
        for c in prefs:
            s.push()
            depth += 1
            s.add(c)
            if s.check() == z3.sat:
                m = s.model()
            else:
                s.pop()
                depth -= 1
    finally:
        for _ in range(depth):
            s.pop()
    return m


def _jsonable_log(log):
    return [d if isinstance(d, bool) else [d[0], d[1]] for d in log]


def _unjson_log(log):
    return [d if isinstance(d, bool) else (d[0], d[1]) for d in log]


# ------------------------------------------------------------------ master side

class Report:
    def __init__(self, pid, tier, seed):
        self.pid, self.tier, self.seed = pid, tier, seed
        self.t0 = time.time()
        self.paths = 0
        self.obligations = 0
        self.nontrivial = 0
        self.exc_paths = 0
        self.queries = 0
        self.solver_s = 0.0
        self.solver_checks = 0
        self.cuts = 0
        self.cross = 0
        self.cross_agree = 0
        self.cross_s = 0.0
        self.failures = []
        self.witnesses = {}
        self.errors = []
        self.samples = []
        self.functions = set()
        self.validated = 0
        self.extra = {}
        self.violations = []       # confirmed (obligation, replay path, description)
        self.known_seen = []
        self.notes = []

    def absorb(self, out):
        self.paths += out['paths']
        self.obligations += out['obligations']
        self.nontrivial += out.get('nontrivial', 0)
        self.exc_paths += out.get('exc_paths', 0)
        st = out.get('stats') or {}
        self.solver_s += st.get('solver_s', 0.0)
        self.solver_checks += st.get('checks', 0)
        self.cuts += st.get('cuts', 0)
        self.cross += st.get('cross', 0)
        self.cross_agree += st.get('cross_agree', 0)
        self.cross_s += st.get('cross_s', 0.0)
        self.failures.extend(out['failures'])
        for k, v in out['witnesses'].items():
            self.witnesses[k] = self.witnesses.get(k, 0) + v
        if out['error']:
            self.errors.append(out['error'])
        if len(self.samples) < 4:
            self.samples.extend(out['samples'][:1])
        self.functions.update(out.get('functions') or [])


def explore_all(modname, queries, report, chunk=400, time_budget=None):
    """distribute queries (and spilled sub-trees) over the process pool"""
    ctx = mp.get_context('spawn')
    deadline = time.time() + time_budget if time_budget else None
    pending = 0
    results = []
    with ctx.Pool(NPROC, maxtasksperchild=200) as pool:
        def submit(q, prefixes, prof):
            nonlocal pending
            pending += 1
            return pool.apply_async(worker, ((modname, q, prefixes, chunk, prof),))
        handles = [submit(q, [[]], i % max(1, len(queries) // 12) == 0) for i, q in enumerate(queries)]
        report.queries = len(queries)
        while handles:
            nxt = []
            progressed = False
            for h in handles:
                if h.ready():
                    progressed = True
                    out = h.get()
                    out['leftover'] = [_unjson_log(p) for p in out['leftover']]
                    if os.environ.get('VERIF_DEBUG'):
                        print("[debug] task done: paths=%d fails=%d leftover=%d wall=%.1fs err=%s q=%s" % (
                            out['paths'], len(out['failures']), len(out['leftover']), out.get('wall', 0),
                            bool(out['error']), json.dumps(out['q'])[:100]), file=sys.stderr, flush=True)
                    report.absorb(out)
                    if out['error']:
                        continue
                    lo = out['leftover']
                    if lo:
                        if deadline and time.time() > deadline:
                            report.errors.append("time budget exhausted with %d open sub-trees" % len(lo))
                            continue
                        # split the leftover prefixes into a few tasks
                        k = max(1, min(len(lo), 4))
                        for i in range(k):
                            part = lo[i::k]
                            if part:
                                nxt.append(submit(out['q'], part, False))
                else:
                    nxt.append(h)
            handles = nxt
            if not progressed:
                time.sleep(0.05)
            if report.errors and len(report.errors) > 5:
                pool.terminate()
                break
    return report


def write_evidence(report, mod, exhaustive, violations, extra_cov=None):
    cov = dict(
        states=max(report.paths, 0),
        transitions=max(report.obligations, 0),
        traces_validated_against_impl=report.validated,
        samples=report.samples[:4] or [dict(note="no path explored")],
        evaluations=report.paths,
        distinct_nontrivial=report.nontrivial,
        rule=("one evaluation = one feasible symbolic path of the real code (distinct decision "
              "logs, so distinct by construction); non-trivial = its path condition has at least "
              "one solver-decided conjunct"),
        exhaustive=bool(exhaustive),
        queries=report.queries,
        obligations_discharged=report.obligations,
        solver_s=round(report.solver_s, 3),
        solver_checks=report.solver_checks,
        paths_with_sut_exception=report.exc_paths,
        cuts=report.cuts,
        cvc5_cross_checked=report.cross,
        cvc5_agree=report.cross_agree,
        cvc5_s=round(report.cross_s, 2),
        functions_encoded=sorted(report.functions),
        bounds=getattr(mod, 'BOUNDS', {}).get(report.tier, getattr(mod, 'BOUNDS', {})),
        stubs=getattr(mod, 'STUBS', []),
        witnesses=report.witnesses,
        known_findings_seen=report.known_seen,
        harness_errors=report.errors[:5],
        notes=report.notes,
        technique=getattr(mod, 'TECHNIQUE', ''),
    )
    cov.update(report.extra)
    if extra_cov:
        cov.update(extra_cov)
    ev = dict(property_id=report.pid, tier=report.tier, seed=report.seed, level="model_checking",
              coverage=cov, assumptions=list(getattr(mod, 'ASSUMPTIONS', [])),
              wall_s=round(time.time() - report.t0, 2), violations=violations)
    evdir = os.environ.get('VERIF_EVIDENCE_DIR') or os.path.join(VERIF, 'evidence')
    os.makedirs(evdir, exist_ok=True)
    path = os.path.join(evdir, '%s.json' % report.pid)
    tmp = path + '.tmp'
    with open(tmp, 'w') as f:
        json.dump(ev, f, indent=1, default=str)
    os.replace(tmp, path)
    return path


def save_replay(pid, payload):
    import hashlib
    d = os.path.join(VERIF, 'out', 'replays', pid)
    os.makedirs(d, exist_ok=True)
    blob = json.dumps(payload, sort_keys=True, default=str)
    h = hashlib.sha1(blob.encode()).hexdigest()[:12]
    path = os.path.join(d, '%s.json' % h)
    with open(path, 'w') as f:
        f.write(json.dumps(payload, indent=1, sort_keys=True, default=str))
    return path


def load_known_findings(pid):
    p = os.path.join(VERIF, 'known_findings.json')
    if not os.path.exists(p):
        return []
    with open(p) as f:
        data = json.load(f)
    return [e for e in data.get('findings', []) if e.get('property') == pid and e.get('status') == 'open']


def finish(report, mod, exhaustive=True):
    """confirm failures by replay, apply known findings, write evidence, return the exit code"""
    from . import replay
    pid = report.pid
    confirmed = []
    unconfirmed = 0
    unreachable = 0
    benign = 0
    known = load_known_findings(pid)
    by_obl = {}
    per_query = getattr(mod, 'GROUP_BY_QUERY', False)
    for f in report.failures:
        key = f['obligation']
        if per_query:
            key = key + ' @ ' + json.dumps(f['q'], sort_keys=True)
        by_obl.setdefault(key, []).append(f)
    for obl, fs in sorted(by_obl.items()):
        done = False
        tried = 0
        for f in fs:
            if tried >= 12:
                break
            tried += 1
            t_r = time.time()
            try:
                verdict, detail = replay.confirm(mod, f)
            except Exception as e:
                verdict, detail = 'error', "replay raised %r\n%s" % (e, traceback.format_exc())
            if os.environ.get('VERIF_DEBUG'):
                print("[debug] replay %s -> %s (%.1fs) %s" % (obl[:80], verdict, time.time() - t_r,
                                                              str(detail)[:200]), file=sys.stderr, flush=True)
            if verdict == 'confirmed':
                sig = replay.match_known(known, f, detail)
                if sig is not None:
                    if sig['id'] not in [k['id'] for k in report.known_seen]:
                        report.known_seen.append(dict(id=sig['id'], what=sig['description']))
                    if sig.get('scope') == 'query' and per_query:
                        break       # the signature covers this whole (obligation, query) group
                    continue
                path = save_replay(pid, dict(property=pid, obligation=obl, query=f['q'],
                                             model=f['model'], detail=detail,
                                             module=mod.__name__))
                confirmed.append((obl, path, detail))
                done = True
                break
            elif verdict == 'unreachable':
                unreachable += 1
            elif verdict == 'benign':
                benign += 1
            elif verdict == 'error':
                report.errors.append(detail)
                break
            else:
                unconfirmed += 1
                report.notes.append("model for %s did not reproduce: %s" % (obl, str(detail)[:300]))
        if not done and fs and not any(c[0] == obl for c in confirmed):
            if unconfirmed and not report.known_seen:
                report.errors.append("obligation %s: solver model(s) did not reproduce on the real "
                                     "code (model / stub mismatch)" % obl)
    if benign:
        report.notes.append("%d stream-bound overrun(s) returned on the real generator (unlucky draws, "
                            "not stuck loops)" % benign)
    if unreachable:
        report.notes.append("%d counterexample(s) had a pre-state that no history reaches "
                            "(invariant over-approximation); not reported" % unreachable)
        if not confirmed and unreachable and not unconfirmed:
            # every counterexample of some obligation was unreachable: inconclusive for that one
            for obl, fs in by_obl.items():
                if not any(c[0] == obl for c in confirmed):
                    report.errors.append("obligation %s: only unreachable pre-states found within "
                                         "the replay budget (invariant too weak)" % obl)
    # vacuity
    missing = [w_ for w_ in getattr(mod, 'REQUIRED_WITNESSES', []) if not report.witnesses.get(w_)]
    if missing and not confirmed:
        report.errors.append("vacuity: no path witnessed %s" % missing)
    if report.paths == 0:
        report.errors.append("no path explored")

    for k in report.known_seen:
        print("KNOWN-FINDING: property=%s %s" % (pid, k['what']))
    write_evidence(report, mod, exhaustive and not report.errors, len(confirmed))
    summary = ("%s tier=%s queries=%d paths=%d obligations=%d solver_s=%.1f wall=%.1fs "
               "violations=%d errors=%d" % (pid, report.tier, report.queries, report.paths,
                                            report.obligations, report.solver_s,
                                            time.time() - report.t0, len(confirmed),
                                            len(report.errors)))
    print(summary)
    if confirmed:
        for obl, path, detail in confirmed:
            print("violated obligation: %s -- %s" % (obl, str(detail)[:400]))
            print("VIOLATION property=%s replay=%s" % (pid, path))
        return EXIT_VIOLATION
    if report.errors:
        for e in report.errors[:5]:
            print("HARNESS-ERROR: %s" % e, file=sys.stderr)
        return EXIT_HARNESS
    return EXIT_OK
