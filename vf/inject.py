"""inject -- make the real NASim modules run on proxies without touching their source.

Name lookup of ``np``, ``int``, ``min`` ... inside a module goes through the module globals first, so
setting attributes on the *imported module objects* is enough.  ``install()`` / ``uninstall()``
switch between the modelled world (symbolic exploration) and the real one (replays, lock-step).
"""
import math as _math
import sys

import os
# the checks always analyse /repo; VERIF_REPO exists only so that the machinery itself can be
# tried against scratch copies (seeded changes) without touching /repo
REPO = os.environ.get('VERIF_REPO', '/repo')
if sys.path[0] != REPO:
    sys.path.insert(0, REPO)

import z3

from . import symex as sx
from . import npmodel

import nasim.envs.host_vector as m_hv
import nasim.envs.state as m_state
import nasim.envs.observation as m_obs
import nasim.envs.network as m_net
import nasim.envs.utils as m_utils
import nasim.envs.environment as m_env
import nasim.envs.action as m_act
import nasim.scenarios.scenario as m_scen
import nasim.scenarios.loader as m_loader
import nasim.scenarios.generator as m_gen
import nasim.scenarios.host as m_host

_builtin_int, _builtin_float, _builtin_bool = int, float, bool
_builtin_isinstance, _builtin_min, _builtin_max, _builtin_type = isinstance, min, max, type


def sym_int(x=0):
    if isinstance(x, sx.SymBool):
        return sx.to_num(x)
    if isinstance(x, sx.SymNum):
        if x.is_int:
            return x
        # int() truncates toward zero
        t = z3.ToInt(x.z)
        return sx.SymNum(z3.If(x.z >= 0, t, -z3.ToInt(-x.z)))
    return _builtin_int(x)


def sym_float(x=0.0):
    if isinstance(x, sx.SymBool):
        x = sx.to_num(x)
    if isinstance(x, sx.SymNum):
        return x if not x.is_int else sx.SymNum(z3.ToReal(x.z))
    return _builtin_float(x)


def sym_bool(x=False):
    if sx.is_sym(x):
        return sx.tobool(x)
    return _builtin_bool(x)


def _classes(t):
    return t if _builtin_isinstance(t, tuple) else (t,)


def sym_isinstance(x, t):
    if _builtin_isinstance(x, sx.SymNpInt):
        import numpy as _np
        carrier = getattr(_np, x.carrier)
        return any(_builtin_isinstance(c, _builtin_type) and issubclass(carrier, c)
                   for c in (_unvirtual(c) for c in _classes(t)))
    if _builtin_isinstance(x, sx.SymNum):
        ts = _classes(t)
        if x.is_int:
            return any(c in (int, object) or c is sym_int for c in ts) or \
                any(c is npmodel.integer for c in ts)
        return any(c in (float, object) or c is sym_float for c in ts)
    if _builtin_isinstance(x, sx.SymBool):
        return any(c in (bool, int, object) or c is sym_int or c is sym_bool for c in _classes(t))
    if _builtin_isinstance(x, npmodel.SArray):
        import numpy as _np
        ts = _classes(t)
        if any(c is _np.ndarray or c is npmodel.SArray for c in ts):
            return True
    ts = tuple(_unvirtual(c) for c in _classes(t))
    return _builtin_isinstance(x, ts)


def _unvirtual(c):
    if c is sym_int:
        return int
    if c is sym_float:
        return float
    if c is sym_bool:
        return bool
    return c


def sym_type(x, *a):
    if a:
        return _builtin_type(x, *a)
    if _builtin_isinstance(x, sx.SymNum):
        return sym_int if x.is_int else sym_float
    if _builtin_isinstance(x, sx.SymBool):
        return sym_bool
    t = _builtin_type(x)
    # inside the modelled modules the names int/float/bool denote the virtual builtins
    if t is _builtin_int:
        return sym_int
    if t is _builtin_float:
        return sym_float
    if t is _builtin_bool:
        return sym_bool
    return t


def _minmax(args, pick_first_if):
    if len(args) == 1:
        args = list(args[0])
    r = args[0]
    for x in args[1:]:
        if sx.is_sym(r) or sx.is_sym(x):
            if _builtin_isinstance(r, float) and _math.isinf(r):
                # min(inf, x) = x ; max(-inf, x) = x ; the other infinities never occur in NASim
                r = x
                continue
            if _builtin_isinstance(x, float) and _math.isinf(x):
                continue
            zr, zx = sx._coerce(sx.znum(r), sx.znum(x))
            r = sx.SymNum(z3.If(pick_first_if(zr, zx), zr, zx))
        else:
            r = _builtin_min(r, x) if pick_first_if is _le else _builtin_max(r, x)
    return r


def _le(a, b):
    return a <= b


def _ge(a, b):
    return a >= b


def sym_min(*args):
    return _minmax(args, _le)


def sym_max(*args):
    return _minmax(args, _ge)


class _Math:
    """math with isclose on proxies == equality (exact in the dyadic domain)"""

    def __getattr__(self, name):
        return getattr(_math, name)

    @staticmethod
    def isclose(a, b, rel_tol=1e-09, abs_tol=0.0):
        if sx.is_sym(a) or sx.is_sym(b):
            za, zb = sx._coerce(sx.znum(a), sx.znum(b))
            if za.sort() == z3.IntSort():
                za, zb = z3.ToReal(za), z3.ToReal(zb)
            absz = lambda t: z3.If(t >= 0, t, -t)
            from fractions import Fraction as _F
            big = z3.If(absz(za) >= absz(zb), absz(za), absz(zb))
            tol = z3.RealVal(_F(rel_tol)) * big
            at = z3.RealVal(_F(abs_tol))
            tol = z3.If(tol >= at, tol, at)
            return sx.SymBool(z3.Or(za == zb, absz(za - zb) <= tol))
        return _math.isclose(a, b, rel_tol=rel_tol, abs_tol=abs_tol)

    @staticmethod
    def ceil(x):
        if sx.is_sym(x):
            if x.is_int:
                return x
            return sx.SymNum(-z3.ToInt(-x.z))
        return _math.ceil(x)


VMATH = _Math()

NP_MODULES = [m_hv, m_state, m_obs, m_net, m_utils, m_env, m_gen]
BUILTIN_MODULES = [m_hv, m_state, m_obs, m_net, m_utils, m_env, m_gen, m_scen, m_loader, m_act]
VIRTUALS = dict(int=sym_int, float=sym_float, bool=sym_bool, isinstance=sym_isinstance,
                min=sym_min, max=sym_max, type=sym_type)

_saved = []
_installed = [False]
_MISSING = object()


def _set(mod, name, val):
    old = mod.__dict__.get(name, _MISSING)
    _saved.append((mod, name, old))
    setattr(mod, name, val)


def _install_reset_hook():
    from . import hidden
    if hidden.restore not in sx.PATH_RESET_HOOKS:
        sx.PATH_RESET_HOOKS.append(hidden.restore)


def install(extra=None):
    """extra: list of (module, name, value) stubs specific to a harness"""
    if _installed[0]:
        uninstall()
    _install_reset_hook()
    for m in NP_MODULES:
        _set(m, 'np', npmodel)
    for m in BUILTIN_MODULES:
        for k, v in VIRTUALS.items():
            _set(m, k, v)
    for m in (m_scen, m_loader, m_act, m_gen):
        _set(m, 'math', VMATH)
    for (m, k, v) in (extra or []):
        _set(m, k, v)
    _installed[0] = True


def uninstall():
    while _saved:
        mod, name, old = _saved.pop()
        if old is _MISSING:
            try:
                delattr(mod, name)
            except AttributeError:
                pass
        else:
            setattr(mod, name, old)
    _installed[0] = False


class modelled:
    def __init__(self, extra=None):
        self.extra = extra

    def __enter__(self):
        install(self.extra)

    def __exit__(self, *a):
        uninstall()
