"""genh -- harness for the scenario generator (C14, C15, C16).

The generator is checked stage by stage with assume/guarantee contracts: every stage runs the real
method on a ScenarioGenerator whose fields are arbitrary values satisfying the earlier stages'
post-conditions.  np.random.* returns arbitrary values of the documented range (so every seed is
covered); each call is a named solver variable, which lets the replay script the same stream into
the real generator through the public API.
"""
import contextlib

import numpy as _np
import z3

from . import symex as sx
from . import scen, stubs, inject, npmodel

import nasim.scenarios.generator as m_gen
import nasim.scenarios.utils as u
from nasim.scenarios.host import Host


class StreamCap(BaseException):
    """the code under test asked for more random values than the bound of the harness"""


class GenRandom:
    """np.random for the generator: arbitrary values of the documented ranges.  Works on a
    symbolic source (exploration) and on a concrete one (replay: values of the model, then the
    real generator once the script is exhausted)."""

    def __init__(self, src, cap=60, poisson_cap=2, fallback=None):
        self.src = src
        self.n = 0
        self.cap = cap
        self.poisson_cap = poisson_cap
        self.log = []
        self.fallback = fallback      # real RandomState used after the script (replay only)

    def _name(self, kind):
        self.n += 1
        if self.cap is not None and self.n > self.cap:
            raise StreamCap("more than %d random values requested" % self.cap)
        return "r%d_%s" % (self.n, kind)

    def _scripted(self, name):
        return self.src.symbolic or name in self.src.m or self.fallback is None

    def seed(self, s=None):
        self.log.append(('seed', s))
        if self.fallback is not None:
            self.fallback.seed(s)

    def rand(self, *shape):
        if shape:
            raise sx.EngineUnsupported("rand with shape")
        nm = self._name('rand')
        if not self._scripted(nm):
            return self.fallback.rand()
        v = self.src.real(nm, 0, None)
        if self.src.symbolic:
            sx.assume(sx.znum(v) < 1)
        self.log.append((nm, 'rand'))
        return v

    def random_sample(self, n=None):
        if n is None:
            return self.rand()
        out = []
        for _ in range(int(n)):
            out.append(self.rand())
        return out

    def random(self, size=None):
        return self.random_sample(size)

    def uniform(self, low=0.0, high=1.0, size=None):
        if size is not None:
            raise sx.EngineUnsupported("uniform with size")
        u = self.rand()
        return low + (high - low) * u

    def randint(self, low, high=None, size=None):
        if size is not None:
            raise sx.EngineUnsupported("randint with size")
        if high is None:
            low, high = 0, low
        nm = self._name('randint')
        if not self._scripted(nm):
            return self.fallback.randint(low, high)
        lo, hi = low, high
        if sx.is_sym(lo) or sx.is_sym(hi):
            raise sx.EngineUnsupported("randint with symbolic bounds")
        if hi <= lo:
            raise ValueError("low >= high")
        v = self.src.int(nm, int(lo), int(hi) - 1)
        self.log.append((nm, 'randint'))
        return v

    def poisson(self, lam=1.0, size=None):
        nm = self._name('poisson')
        if not self._scripted(nm):
            return self.fallback.poisson(lam)
        v = self.src.int(nm, 0, self.poisson_cap)
        self.log.append((nm, 'poisson'))
        return v

    def choice(self, a, size=None, replace=True, p=None):
        if isinstance(a, (int, _np.integer)):
            seq = None
            n = int(a)
        else:
            seq = list(a)
            n = len(seq)
        if n <= 0:
            raise ValueError("'a' cannot be empty unless no samples are taken")
        if p is not None and len(list(p)) != n:
            raise ValueError("'a' and 'p' must have same size")

        def one():
            nm = self._name('choice')
            if not self._scripted(nm):
                k = int(self.fallback.randint(0, n))
            else:
                k = self.src.int(nm, 0, n - 1)
                self.log.append((nm, 'choice'))
            if seq is None:
                return k
            return seq[int(k)]          # forks over the elements (solver-driven split)
        if size is None:
            return one()
        return [one() for _ in range(int(size))]


class GenNp:
    """the name `np` inside nasim.scenarios.generator"""

    def __init__(self, rnd, modelled):
        self.random = rnd
        self._m = npmodel if modelled else _np

    def __getattr__(self, name):
        return getattr(self._m, name)


@contextlib.contextmanager
def stream(src, **kw):
    """install the stream: symbolic side -> m_gen.np is the model + GenRandom; replay side ->
    numpy.random.* of the real numpy are patched, the generator module itself is untouched"""
    if src.symbolic:
        rnd = GenRandom(src, **kw)
        old = m_gen.np
        m_gen.np = GenNp(rnd, True)
        try:
            yield rnd
        finally:
            m_gen.np = old
    else:
        rnd = GenRandom(src, fallback=_np.random.RandomState(12345), **kw)
        names = ('seed', 'rand', 'random_sample', 'randint', 'poisson', 'choice')
        saved = {k: getattr(_np.random, k) for k in names}
        for k in names:
            setattr(_np.random, k, getattr(rnd, k))
        try:
            yield rnd
        finally:
            for k, v in saved.items():
                setattr(_np.random, k, v)


class OrderedNameSet:
    """virtual `set` for the generator: same interface as the subset of set the generator uses;
    iteration order is given by `order` (a function elements -> list), default sorted."""
    order = None       # class-level hook, set by the C14 harness

    def __init__(self, it=()):
        self._d = {}
        for x in it:
            self._d[x] = True

    def add(self, x):
        self._d[x] = True

    def remove(self, x):
        del self._d[x]

    def discard(self, x):
        self._d.pop(x, None)

    def copy(self):
        return OrderedNameSet(self._d.keys())

    def update(self, *its):
        for it in its:
            for x in it:
                self._d[x] = True

    def pop(self):
        k = next(iter(self))
        del self._d[k]
        return k

    def clear(self):
        self._d.clear()

    def union(self, *its):
        r = self.copy()
        r.update(*its)
        return r

    def difference(self, *its):
        r = self.copy()
        for it in its:
            for x in it:
                r.discard(x)
        return r

    def intersection(self, *its):
        r = OrderedNameSet(x for x in self._d if all(x in it for it in its))
        return r

    def issubset(self, other):
        return all(x in other for x in self._d)

    def issuperset(self, other):
        return all(x in self._d for x in other)

    __or__ = union
    __sub__ = difference
    __and__ = intersection
    __le__ = issubset
    __ge__ = issuperset

    def __bool__(self):
        return len(self._d) > 0

    def __contains__(self, x):
        return x in self._d

    def __len__(self):
        return len(self._d)

    def __iter__(self):
        elems = list(self._d.keys())
        if OrderedNameSet.order is not None:
            elems = OrderedNameSet.order(elems)
        else:
            elems = sorted(elems, key=lambda e: (str(type(e)), e))
        return iter(elems)

    def __eq__(self, other):
        if isinstance(other, (OrderedNameSet, set, frozenset)):
            return set(self._d.keys()) == set(other)
        return NotImplemented

    __hash__ = None

    def __repr__(self):
        return "OrderedNameSet(%r)" % sorted(self._d.keys(), key=str)


EXTRA_STUBS = [(m_gen, 'set', OrderedNameSet)]


# ------------------------------------------------------------------ building generator states

def new_generator(S, O, P, subnets=None):
    g = m_gen.ScenarioGenerator()
    g.os = ["os_%d" % i for i in range(O)]
    g.services = ["srv_%d" % i for i in range(S)]
    g.processes = ["proc_%d" % i for i in range(P)]
    if subnets is not None:
        g.subnets = list(subnets)
    return g


def subnets_for(num_hosts):
    """the documented split (DMZ, sensitive, user subnets of <= 5 hosts)"""
    import math
    dmz = math.ceil(num_hosts / 40)
    sens = math.ceil(num_hosts / 41)
    user = num_hosts - dmz - sens
    out = [1, dmz, sens] + [5] * (user // 5)
    if user % 5:
        out.append(user % 5)
    return out


def symbolic_exploits(src, g, defs, tag='e'):
    """defs: list of (service index, os index or None).  access symbolic in {1,2}, prob in (0,1]"""
    ex = {}
    for i, (si, oi) in enumerate(defs):
        srv = g.services[si]
        os_ = None if oi is None else g.os[oi]
        name = "e_%s" % srv + ("_%s" % os_ if os_ is not None else "")
        ex[name] = {u.EXPLOIT_SERVICE: srv, u.EXPLOIT_OS: os_, u.EXPLOIT_PROB: 1.0,
                    u.EXPLOIT_COST: 1, u.EXPLOIT_ACCESS: src.int("%s%d_acc" % (tag, i), 1, 2)}
    return ex


def symbolic_privescs(src, g, defs):
    pe = {}
    for i, (pi, oi) in enumerate(defs):
        proc = g.processes[pi]
        os_ = None if oi is None else g.os[oi]
        name = "pe_%s" % proc + ("_%s" % os_ if os_ is not None else "")
        pe[name] = {u.PRIVESC_PROCESS: proc, u.PRIVESC_OS: os_, u.PRIVESC_PROB: 1.0,
                    u.PRIVESC_COST: 1, u.PRIVESC_ACCESS: u.ROOT_ACCESS}
    return pe


def symbolic_hosts(src, g, sens, well_formed=True):
    """Host objects with symbolic configuration bits (one OS, >= 1 service, >= 1 process)"""
    hosts = {}
    bits = {}
    for s, size in enumerate(g.subnets):
        if s == 0:
            continue
        for h in range(size):
            a = (s, h)
            nm = "g%d_%d" % a
            osb = {o: src.bool("%s_os_%s" % (nm, o)) for o in g.os}
            srvb = {x: src.bool("%s_srv_%s" % (nm, x)) for x in g.services}
            prcb = {x: src.bool("%s_prc_%s" % (nm, x)) for x in g.processes}
            if src.symbolic and well_formed:
                sx.assume(sx.exactly_one([sx.zbool(b) for b in osb.values()]))
                sx.assume(z3.Or([sx.zbool(b) for b in srvb.values()]))
                sx.assume(z3.Or([sx.zbool(b) for b in prcb.values()]))
            bits[a] = dict(os=dict(osb), srv=dict(srvb), prc=dict(prcb))
            hosts[a] = Host(a, dict(osb), dict(srvb), dict(prcb), {},
                            value=float(sens.get(a, 1)), discovery_value=1)
    return hosts, bits


# ------------------------------------------------------------------ declarative predicates

def zb(x):
    return sx.zbool(x)


def vulnerable_to_exploit(host, e):
    srv = zb(host.services[e[u.EXPLOIT_SERVICE]])
    if e[u.EXPLOIT_OS] is None:
        return srv
    return z3.And(srv, zb(host.os[e[u.EXPLOIT_OS]]))


def vulnerable_to_privesc(host, pe):
    prc = zb(host.processes[pe[u.PRIVESC_PROCESS]])
    if pe[u.PRIVESC_OS] is None:
        return prc
    return z3.And(prc, zb(host.os[pe[u.PRIVESC_OS]]))


def host_vulnerable(host, exploits, privescs, root):
    """some exploit applies (and, if root is wanted, it grants root or some escalation applies)"""
    cs = []
    anype = z3.Or([vulnerable_to_privesc(host, pe) for pe in privescs.values()]) if privescs else z3.BoolVal(False)
    for e in exploits.values():
        v = vulnerable_to_exploit(host, e)
        if root:
            v = z3.And(v, z3.Or(sx.znum(e[u.EXPLOIT_ACCESS]) >= 2, anype))
        cs.append(v)
    return z3.Or(cs) if cs else z3.BoolVal(False)


def host_well_formed(host):
    return z3.And(sx.exactly_one([zb(b) for b in host.os.values()]),
                  z3.Or([zb(b) for b in host.services.values()]),
                  z3.Or([zb(b) for b in host.processes.values()]))


def privescs_cover_every_os(g, privescs):
    oss = [pe[u.PRIVESC_OS] for pe in privescs.values()]
    return (None in oss) or all(o in oss for o in g.os)
