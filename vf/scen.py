"""scen -- symbolic scenario families, the validity predicate V and the inductive invariant Inv.

A *shape* fixes what determines array sizes and loop trip counts (subnet sizes, numbers of
services / OS / processes).  Everything else comes from a *source*: the symbolic source hands out
proxies (exploration), the concrete source hands out the values of a solver model (replay on the
real code with real numpy).  The same builder therefore produces the objects for both worlds and
the oracles (vf/spec.py) are written once, over ``znum()/zbool()`` of whatever the source gave.
"""
from fractions import Fraction

import z3

from . import symex as sx
from . import inject  # noqa: F401  (sys.path + module imports)

import nasim.envs.host_vector as m_hv
import nasim.envs.network as m_net
import nasim.envs.state as m_state
import nasim.envs.action as m_act
from nasim.envs.utils import AccessLevel
from nasim.scenarios.scenario import Scenario
from nasim.scenarios.host import Host
import nasim.scenarios.utils as u


class Shape:
    def __init__(self, sizes, S=2, O=2, P=1, bounds=None):
        self.sizes = tuple(sizes)      # subnet sizes without the internet
        self.S, self.O, self.P = S, O, P
        self.bounds = bounds           # custom address space bounds or None

    @property
    def subnets(self):
        return [1] + list(self.sizes)

    @property
    def addrs(self):
        return [(s + 1, h) for s, n in enumerate(self.sizes) for h in range(n)]

    def key(self):
        return "sizes=%s,S=%d,O=%d,P=%d%s" % (list(self.sizes), self.S, self.O, self.P,
                                             (",bounds=%s" % (self.bounds,)) if self.bounds else "")

    def to_json(self):
        return dict(sizes=list(self.sizes), S=self.S, O=self.O, P=self.P, bounds=self.bounds)

    @staticmethod
    def from_json(d):
        b = d.get('bounds')
        return Shape(d['sizes'], d['S'], d['O'], d['P'], tuple(b) if b else None)


# ------------------------------------------------------------------ sources

class SymSource:
    symbolic = True

    def bool(self, name):
        return sx.Bool(name)

    def int(self, name, lo, hi):
        return sx.Int(name, lo, hi)

    def quarter(self, name, lo4=-400, hi4=400):
        return sx.Quarter(name, lo4, hi4)

    def real(self, name, lo=None, hi=None):
        return sx.Real(name, lo, hi)

    def bit(self, name):
        """0/1 integer"""
        return sx.to_num(sx.Bool(name))


def _frac(v):
    if isinstance(v, str):
        return Fraction(v)
    return Fraction(v)


class ConcSource:
    """values of a solver model; names missing in the model take a default (the solver did not
    care about them)"""
    symbolic = False

    def __init__(self, model):
        self.m = model
        self.used = {}

    def _get(self, name, default):
        v = self.m.get(name, default)
        self.used[name] = v
        return v

    def bool(self, name):
        return bool(self._get(name, False))

    def int(self, name, lo, hi):
        return int(self._get(name, lo if lo is not None else 0))

    def quarter(self, name, lo4=-400, hi4=400):
        k = int(self._get(name + "_x4", max(lo4, min(0, hi4))))
        return k / 4.0

    def real(self, name, lo=None, hi=None):
        v = self._get(name, lo if lo is not None else 0)
        return float(_frac(v))

    def bit(self, name):
        return 1 if self._get(name, False) else 0


class MemberSet:
    """a set of names with symbolic membership (``x in s`` forks, like the bool() it models)"""

    def __init__(self, bits):
        self.bits = bits

    def __contains__(self, n):
        return self.bits[n]

    def __iter__(self):
        # forks on every membership bit, like the list the bits stand for
        for n, b in self.bits.items():
            if b:
                yield n

    def __len__(self):
        return sum(1 for _ in self)

    def __bool__(self):
        return len(self) > 0


class World:
    pass


def build_world(src, shape, sens=None, exploits=None, privescs=None, step_limit=None,
                scan_costs=None, host_fw=True, symbolic_values=True, name_tag="", host_order=None):
    """Build the real Scenario / Host objects of a shape from a source.

    sens: list of sensitive addresses (default: last host).  exploits / privescs: dicts of action
    definitions (may contain proxies).  Returns a World with the raw inputs and the real objects.
    """
    w = World()
    w.src = src
    w.shape = shape
    subnets = shape.subnets
    n = len(subnets)
    w.n = n
    w.services = ["%ss%d" % (name_tag, i) for i in range(shape.S)]
    w.oss = ["%so%d" % (name_tag, i) for i in range(shape.O)]
    w.procs = ["%sp%d" % (name_tag, i) for i in range(shape.P)]
    w.addrs = shape.addrs

    # topology: symmetric, reflexive (documented); which subnets are public is symbolic
    T = [[None] * n for _ in range(n)]
    for i in range(n):
        for j in range(i, n):
            if i == j:
                T[i][j] = 1
            else:
                b = src.bit("top_%d_%d" % (i, j))
                T[i][j] = b
                T[j][i] = b
    w.T = T
    # at least one public subnet
    if src.symbolic:
        sx.assume(z3.Or([sx.znum(T[s][0]) == 1 for s in range(1, n)]))

    # subnet firewall: one membership bit per ordered pair and service
    w.FW = {}
    fw = {}
    for i in range(n):
        for j in range(n):
            if i == j:
                continue
            bits = {s: src.bool("fw_%d_%d_%s" % (i, j, s)) for s in w.services}
            w.FW[(i, j)] = bits
            fw[(i, j)] = MemberSet(bits) if src.symbolic else [s for s in w.services if bits[s]]

    # hosts
    w.os, w.srv, w.prc, w.deny, w.val, w.dval = {}, {}, {}, {}, {}, {}
    sens = list(sens) if sens is not None else [w.addrs[-1]]
    w.sens = sens
    hosts = {}
    for a in w.addrs:
        nm = "h%d%d" % a
        osb = {o: src.bool("%s_os_%s" % (nm, o)) for o in w.oss}
        srvb = {s: src.bool("%s_srv_%s" % (nm, s)) for s in w.services}
        prcb = {p: src.bool("%s_prc_%s" % (nm, p)) for p in w.procs}
        if src.symbolic:
            sx.assume(sx.exactly_one([b.z for b in osb.values()]))     # exactly one OS
            sx.assume(z3.Or([b.z for b in srvb.values()]))               # at least one service (docs)
        hfw = {}
        w.deny[a] = {}
        if host_fw:
            for g in w.addrs:
                if g == a:
                    continue
                bits = {s: src.bool("%s_deny_%d%d_%s" % (nm, g[0], g[1], s)) for s in w.services}
                w.deny[a][g] = bits
                hfw[g] = MemberSet(bits) if src.symbolic else [s for s in w.services if bits[s]]
        if symbolic_values:
            if a in sens:
                val = src.quarter("%s_val" % nm, 1, 400)    # sensitive values are positive
            else:
                val = src.quarter("%s_val" % nm, -400, 400)
            dval = src.quarter("%s_dval" % nm, -400, 400)
        else:
            val = 100.0 if a in sens else 0.0
            dval = 0.0
        w.os[a], w.srv[a], w.prc[a], w.val[a], w.dval[a] = osb, srvb, prcb, val, dval
        hosts[a] = Host(a, dict(osb), dict(srvb), dict(prcb), hfw, value=val, discovery_value=dval)
    if host_order == 'reversed':
        # the host mapping of a scenario has no prescribed order (YAML mapping)
        hosts = {a: hosts[a] for a in reversed(list(hosts))}
    w.hosts = hosts

    sc = scan_costs or {}
    sd = {
        u.SUBNETS: subnets, u.TOPOLOGY: T, u.OS: w.oss, u.SERVICES: w.services,
        u.PROCESSES: w.procs,
        u.SENSITIVE_HOSTS: {a: w.val[a] for a in sens},
        u.EXPLOITS: exploits if exploits is not None else {},
        u.PRIVESCS: privescs if privescs is not None else {},
        u.OS_SCAN_COST: sc.get('os', 1), u.SERVICE_SCAN_COST: sc.get('service', 1),
        u.SUBNET_SCAN_COST: sc.get('subnet', 1), u.PROCESS_SCAN_COST: sc.get('process', 1),
        u.FIREWALL: fw, u.HOSTS: hosts, u.STEP_LIMIT: step_limit,
    }
    if shape.bounds:
        sd[u.ADDRESS_SPACE_BOUNDS] = tuple(shape.bounds)
    w.scenario_dict = sd
    w.scenario = Scenario(sd, name="sym")
    return w


STATUS = ('comp', 'reach', 'disc', 'acc')


def status_idx():
    HV = m_hv.HostVector
    return dict(comp=HV._compromised_idx, reach=HV._reachable_idx, disc=HV._discovered_idx,
                acc=HV._access_idx)


def code_layout():
    """feature groups of a host row *as the code lays them out* (C09 checks them against the
    documentation; every other property only needs to find the features)"""
    HV = m_hv.HostVector
    return dict(
        subnet=list(range(HV._subnet_address_idx, HV._host_address_idx)),
        host=list(range(HV._host_address_idx, HV._compromised_idx)),
        comp=[HV._compromised_idx], reach=[HV._reachable_idx], disc=[HV._discovered_idx],
        value=[HV._value_idx], dvalue=[HV._discovery_value_idx], acc=[HV._access_idx],
        os=list(range(HV._os_start_idx, HV._service_start_idx)),
        srv=list(range(HV._service_start_idx, HV._process_start_idx)),
        prc=list(range(HV._process_start_idx, HV.state_size)),
        size=HV.state_size)


def symbolic_state(w, state, tag="", constrain_domain=True):
    """Overwrite the four status cells of every host row of a real State with source values.
    Returns {addr: dict(comp, reach, disc, acc)} of raw inputs."""
    src = w.src
    idx = status_idx()
    pre = {}
    for a in w.addrs:
        nm = "%sh%d%d" % (tag, a[0], a[1])
        c = src.bit("%s_comp" % nm)
        r = src.bit("%s_reach" % nm)
        d = src.bit("%s_disc" % nm)
        if constrain_domain:
            ac = src.int("%s_acc" % nm, 0, 2)
        else:
            ac = src.int("%s_acc" % nm, None, None)
        row = state.tensor[w.scenario.host_num_map[a]]
        row[idx['comp']] = c
        row[idx['reach']] = r
        row[idx['disc']] = d
        row[idx['acc']] = ac
        # ghost variable: the order in which hosts were compromised (well-founded support)
        rk = src.int("%s_rank" % nm, 0, len(w.addrs))
        pre[a] = dict(comp=c, reach=r, disc=d, acc=ac, rank=rk)
    return pre


def read_status(w, state):
    """status cells of a state (model or real numpy) as z3 terms"""
    idx = status_idx()
    out = {}
    for a in w.addrs:
        row = state.tensor[w.scenario.host_num_map[a]]
        out[a] = {k: sx.znum(_cell(row, idx[k])) for k in STATUS}
    return out


def _cell(row, i):
    from . import npmodel
    if isinstance(row, npmodel.SArray):
        return row.buf.cells[row.offset + i]
    return row[i]


def row_cells(state_or_tensor, i):
    """all cells of row i as z3 terms"""
    from . import npmodel
    t = getattr(state_or_tensor, 'tensor', state_or_tensor)
    row = t[i]
    if isinstance(row, npmodel.SArray):
        return [sx.znum(c) for c in row.cells()]
    return [sx.znum(c) for c in row]


def zstatus(pre):
    """raw status inputs -> z3 terms"""
    return {a: {k: sx.znum(v) for k, v in d.items()} for a, d in pre.items()}


def tz(w, i, j):
    return sx.znum(w.T[i][j]) == 1


def public(w, s):
    return tz(w, s, 0)


def inv(w, st):
    """The inductive invariant over status terms st[a][k] (z3 Int/Real terms)."""
    cs = []
    for a in w.addrs:
        c, r, d, ac = (st[a][k] for k in STATUS)
        cs += [z3.Or(c == 0, c == 1), z3.Or(r == 0, r == 1), z3.Or(d == 0, d == 1),
               z3.Or(ac == 0, ac == 1, ac == 2)]
        cs.append((c == 1) == (ac >= 1))
        cs.append(z3.Implies(c == 1, d == 1))
        cs.append(z3.Implies(d == 1, r == 1))
        support = z3.Or([z3.And(st[g]['comp'] == 1, tz(w, g[0], a[0])) for g in w.addrs])
        cs.append((r == 1) == z3.Or(public(w, a[0]), support))
        for b in w.addrs:
            if b[0] == a[0] and b != a:
                cs.append(d == st[b]['disc'])
        cs.append(z3.Implies(z3.And(d == 1, z3.Not(public(w, a[0]))), support))
        # public subnets are discovered from reset on
        cs.append(z3.Implies(public(w, a[0]), d == 1))
        # a compromised host of a non-public subnet was reachable when it was compromised: some
        # host compromised EARLIER (ghost rank) sits in a connected subnet - no self-support
        if 'rank' in st[a]:
            earlier = [z3.And(st[g]['comp'] == 1, tz(w, g[0], a[0]), st[g]['rank'] < st[a]['rank'])
                       for g in w.addrs if g != a and 'rank' in st[g]]
            cs.append(z3.Implies(c == 1, z3.Or([public(w, a[0])] + earlier)))
    return z3.And(cs)


def post_ranks(w, st, post):
    """ranks witnessing Inv for the state after a step: hosts keep their rank, a newly
    compromised host is the latest"""
    out = {}
    for a in w.addrs:
        d = dict(post[a])
        if 'rank' in st[a]:
            d['rank'] = z3.If(st[a]['comp'] == 1, st[a]['rank'], z3.IntVal(len(w.addrs) + 1))
        out[a] = d
    return out


def initial(w, st):
    """exactly the initial state"""
    cs = []
    for a in w.addrs:
        c, r, d, ac = (st[a][k] for k in STATUS)
        p = public(w, a[0])
        cs += [c == 0, ac == 0, (r == 1) == p, (d == 1) == p, z3.Or(r == 0, r == 1),
               z3.Or(d == 0, d == 1)]
    return z3.And(cs)


# ------------------------------------------------------------------ actions

KINDS = ('exploit', 'privesc', 'service_scan', 'os_scan', 'subnet_scan', 'process_scan', 'noop')


def make_action(w, kind, target, name=None, os=None, tag="a", req_symbolic=True, cost=None, prob=None, grant=None):
    """A real Action object whose numeric fields come from the source."""
    src = w.src
    A = World()
    A.kind, A.target, A.name, A.os = kind, target, name, os
    if kind == 'noop':
        A.cost, A.prob, A.req, A.grant = 0, 1.0, 0, None
        A.obj = m_act.NoOp()
        return A
    # costs in eighths (0.125 steps, exact in float32, finer than two decimals)
    A.cost = cost if cost is not None else src.quarter("%s_cost" % tag, 0, 400) / 2
    if kind in ('exploit', 'privesc'):
        A.prob = prob if prob is not None else src.real("%s_prob" % tag, 0, 1)
        A.grant = grant if grant is not None else src.int("%s_grant" % tag, 1, 2)
    else:
        A.prob = 1.0
        A.grant = None
    A.req = src.int("%s_req" % tag, 0, 2) if req_symbolic else AccessLevel.USER
    try:
        if kind == 'exploit':
            A.obj = m_act.Exploit("e_x", target, cost=A.cost, service=name, os=os, access=A.grant,
                                  prob=A.prob, req_access=A.req)
        elif kind == 'privesc':
            A.obj = m_act.PrivilegeEscalation("pe_x", target, cost=A.cost, access=A.grant, process=name,
                                              os=os, prob=A.prob, req_access=A.req)
        else:
            cls = dict(service_scan=m_act.ServiceScan, os_scan=m_act.OSScan,
                       subnet_scan=m_act.SubnetScan, process_scan=m_act.ProcessScan)[kind]
            A.obj = cls(target, cost=A.cost, prob=A.prob, req_access=A.req)
    except AssertionError:
        # the Action class refuses these field values: no step exists to talk about here; whether
        # every action of a valid scenario can be constructed is C10's / C11's subject
        raise sx.Cut("action not constructible")
    return A
