"""vcheck entry point: vcheck <ID> --tier quick|thorough ; vcheck replay <file>"""
import argparse
import importlib
import os
import sys
import time
import traceback


def main():
    if len(sys.argv) > 1 and sys.argv[1] == 'replay':
        from . import replay
        return replay.main(sys.argv[2:])
    ap = argparse.ArgumentParser()
    ap.add_argument('pid')
    ap.add_argument('--tier', default=os.environ.get('VERIF_TIER', 'quick'))
    a = ap.parse_args()
    seed = int(os.environ.get('VERIF_SEED', '0') or 0)
    # second opinion by cvc5 on a sample of the obligations (every 500th in quick, every 25th in
    # thorough) and on every obligation z3 finds violated
    os.environ.setdefault('VERIF_CROSS_EVERY', '500' if a.tier == 'quick' else '25')
    pid = a.pid.upper()
    from . import runner
    mod = importlib.import_module('vf.props.%s' % pid.lower())
    if hasattr(mod, 'main'):
        return mod.main(a.tier, seed)
    report = runner.Report(pid, a.tier, seed)
    try:
        from . import lockstep
        report.validated = lockstep.validate(seed, report)
        qs = mod.queries(a.tier, seed)
        runner.explore_all(mod.__name__, qs, report)
        return runner.finish(report, mod)
    except BaseException as e:
        if isinstance(e, SystemExit):
            raise
        traceback.print_exc()
        report.errors.append("%s: %s" % (type(e).__name__, e))
        try:
            runner.write_evidence(report, mod, False, 0)
        except Exception:
            traceback.print_exc()
        return runner.EXIT_HARNESS


if __name__ == '__main__':
    sys.exit(main())
