"""C02 -- actions respect discovery, reachability, pivot access and both firewall layers.

Obligations per path of the real Network.perform_action:
 - target not (discovered and reachable) => failure and next state == state (every cell);
 - service scan / OS scan / exploit on a non-public target: success => pivot (a compromised host
   with the required access whose subnet is connected -- for an exploit: allowed by the subnet
   firewall rule towards the target's subnet, or the same subnet);
 - exploit: success => traffic (from the internet through FW[(0, s)] for a public subnet, or from
   a compromised host through the subnet rule in that direction and not denied by the target's
   host firewall for that source);
 - subnet scan / process scan / escalation: success => target compromised with required access.
Firewall tables, deny lists, which subnets are public and req_access are symbolic.
"""
import z3

from .. import symex as sx
from .. import dyn, loaded, loaderh
from ..scen import public
from . import common

ID = "C02"
TECHNIQUE = "symbolic execution of the real Network.perform_action/traffic_permitted/has_required_remote_permission by z3 proxy values against the declarative step relation; counterexample replay"
needs_reach = True
EXTRA_STUBS = dyn.EXTRA_STUBS + loaderh.EXTRA_STUBS
REQUIRED_WITNESSES = ['success_exploit', 'success_service_scan', 'failure', 'flag_conn', 'flag_perm']
STUBS, ASSUMPTIONS, BOUNDS = common.STUBS, common.ASSUMPTIONS, common.BOUNDS
describe = common.describe
prefer = common.prefer


def queries(tier, seed=0):
    qs = [q for q in dyn.base_queries(tier, level='net') if q['kind'] != 'noop'] + loaded.queries()
    # firewall rules between subnets with higher indices: four subnets, smallest name sets
    from ..scen import Shape
    deep = Shape([1, 1, 1, 1], 1, 1, 1).to_json()
    for t in ([4, 0], [3, 0]):
        qs.append(dict(shape=deep, kind='exploit', target=t, name='s0', os=None, level='net', host_fw=False))
    return qs


def run(src, q):
    return loaded.run(src, q) if q.get('loaded') else dyn.run(src, q)


def obligations(r):
    if r.q.get('loaded'):
        return loaded.obligations(r)[:2]
    w, A, st, post, step = r.w, r.A, r.st, r.post, r.step
    succ = r.res['success']
    t = A.target
    obl = []
    same = common.rows_equal(r.pre_rows, r.post_rows)
    obl.append(('undiscovered_or_unreachable_target_fails_and_changes_nothing',
                z3.Implies(z3.Not(step.conn), z3.And(z3.Not(succ), same))))
    if A.kind in ('service_scan', 'os_scan', 'exploit'):
        obl.append(('remote_action_needs_pivot',
                    z3.Implies(z3.And(succ, z3.Not(public(w, t[0]))), step.pivot)))
    if A.kind == 'exploit':
        obl.append(('exploit_needs_permitted_traffic', z3.Implies(succ, step.traffic)))
    if A.kind in ('subnet_scan', 'process_scan', 'privesc'):
        need = z3.And(st[t]['comp'] == 1, st[t]['acc'] >= sx.znum(A.req))
        obl.append(('on_host_action_needs_access', z3.Implies(succ, need)))
    return obl


witnesses = common.outcome_witnesses
