"""C01 -- access is gained only through an applicable exploit or privilege escalation.

Obligations per path of the real Network.perform_action (oracle: Step*, vf/spec.py):
 (a) hosts other than the target keep compromised/access;
 (b) the target's compromised/access change only for an exploit/escalation whose host-level
     preconditions hold;
 (c) scans and no-ops change no compromised/access cell;
 (d) preconditions (host level + C02's network level) and a succeeding draw => success, and every
     success of an exploit/escalation leaves compromised = 1 and access = max(previous, granted);
     a failure leaves both unchanged.
"""
import z3

from .. import symex as sx
from .. import dyn
from . import common

ID = "C01"
TECHNIQUE = "symbolic execution of the real Network/HostVector.perform_action by z3 proxy values against the declarative step relation; invariant-constrained symbolic pre-state; counterexample replay"
needs_reach = True
EXTRA_STUBS = dyn.EXTRA_STUBS
REQUIRED_WITNESSES = ['success_exploit', 'success_privesc', 'failure', 'success_subnet_scan']
STUBS, ASSUMPTIONS, BOUNDS = common.STUBS, common.ASSUMPTIONS, common.BOUNDS
describe = common.describe
prefer = common.prefer


def queries(tier, seed=0):
    return dyn.base_queries(tier, level='net')


run = dyn.run


def obligations(r):
    w, A, st, post, step = r.w, r.A, r.st, r.post, r.step
    succ = r.res['success']
    t = A.target
    obl = []
    others = [z3.And(post[a]['comp'] == st[a]['comp'], post[a]['acc'] == st[a]['acc'])
              for a in w.addrs if a != t or A.kind == 'noop']
    obl.append(('other_hosts_access_unchanged', z3.And(others) if others else z3.BoolVal(True)))
    changed = z3.Or(post[t]['comp'] != st[t]['comp'], post[t]['acc'] != st[t]['acc'])
    if A.kind in ('exploit', 'privesc'):
        obl.append(('change_needs_host_preconditions', z3.Implies(changed, step.hostok)))
        obl.append(('preconditions_and_draw_imply_success', z3.Implies(step.must_succeed, succ)))
        eff = z3.And(post[t]['comp'] == 1, post[t]['acc'] == step.maxacc())
        obl.append(('success_grants_max_access', z3.Implies(succ, eff)))
        obl.append(('failure_changes_no_access', z3.Implies(z3.Not(succ), z3.Not(changed))))
    else:
        obl.append(('scan_or_noop_changes_no_access', z3.Not(changed)))
    return obl


witnesses = common.outcome_witnesses
