"""C03 -- reachability and discovery follow compromise exactly.

This is the induction for Inv on the real code: (i) Network.reset from any Inv-state gives exactly
the initial state; (ii) Inv and V entail Inv' after Network.perform_action for every action kind and
target; (iii) discovery changes only through a successful subnet scan on a compromised host and
such a scan discovers exactly the hosts of the connected subnets (state and info dictionaries).
"""
import z3

from .. import symex as sx
from .. import scen, spec, dyn, stubs
from . import common
from ..scen import Shape, STATUS, tz, public

import nasim.envs.network as m_net
import nasim.envs.state as m_state

ID = "C03"
TECHNIQUE = "symbolic execution of the real Network.reset/perform_action by z3 proxy values; inductive invariant, one symbolic step"
needs_reach = True
NO_REACH_OBLIGATIONS = ('initial_state_is_init',)      # about generate_initial_state, not about the pre-state
EXTRA_STUBS = dyn.EXTRA_STUBS
REQUIRED_WITNESSES = ['success', 'failure', 'reset', 'scan_discovers', 'exploit_extends_reach']
STUBS = ["np -> vf.npmodel array model (validated in lock-step against numpy)",
         "int/float/bool/isinstance/min/max/type -> virtual builtins that keep proxies symbolic",
         "np.random.rand -> fresh real u in [0,1), draws counted"]
ASSUMPTIONS = ["V: documented scenario format (symmetric reflexive topology, >=1 public subnet, one OS and >=1 service per host)",
               "pre-state: any tensor satisfying Inv (proved inductive here), so histories of any length are covered",
               "scenarios larger than the stated shapes are outside the claim (small-scope hypothesis)"]
BOUNDS = dict(quick="shapes [1,1],[2,1],[1,1,1] (subnet sizes without internet), S=2,O=2,P=1; targets first/last host; plus [1,1,1,1] with S=O=P=1, no host firewalls, exploit and subnet scan on (2,0)",
              thorough="adds [1,2],[2,1,1], P=2, every target / service / process / OS name")


def queries(tier, seed=0):
    qs = dyn.base_queries(tier, level='net')
    # reachability / discovery follow the topology only: a deeper shape (four subnets, so two
    # branches joined by a cross link exist) with the smallest name sets and no host firewalls
    deep = Shape([1, 1, 1, 1], 1, 1, 1).to_json()
    for kind, nm in (('exploit', 's0'), ('subnet_scan', None)):
        for t in ([[2, 0]] if tier == 'quick' else [[1, 0], [2, 0], [4, 0]]):
            qs.append(dict(shape=deep, kind=kind, target=t, name=nm, os=None, level='net', host_fw=False))
    shapes = {}
    for q in qs:
        shapes[str(q['shape'])] = q['shape']
    for sh in shapes.values():
        qs.append(dict(shape=sh, kind='reset', target=[1, 0], level='net'))
    return qs


def run(src, q):
    if q['kind'] != 'reset':
        return dyn.run(src, q)
    shape = Shape.from_json(q['shape'])
    w = scen.build_world(src, shape)
    r = dyn.Rec()
    r.q, r.w = q, w
    net = m_net.Network(w.scenario)
    with stubs.sut():
        init = m_state.State.generate_initial_state(net)
    r.init_status = scen.read_status(w, init)
    state = init.copy()
    r.pre = scen.symbolic_state(w, state)
    r.st = scen.zstatus(r.pre)
    if src.symbolic:
        sx.assume(scen.inv(w, r.st))      # reset is called from reachable states
        sx.check_feasible()
    r.pre_rows = dyn.tensor_rows(state.tensor)
    with stubs.sut():
        ns = net.reset(state)
    r.post = scen.read_status(w, ns)
    r.post_rows = dyn.tensor_rows(ns.tensor)
    r.after_rows = dyn.tensor_rows(state.tensor)
    return r


def obligations(r):
    w = r.w
    obl = []
    if r.q['kind'] == 'reset':
        obl.append(('initial_state_is_init', scen.initial(w, r.init_status)))
        obl.append(('reset_gives_init', scen.initial(w, r.post)))
        obl.append(('init_satisfies_inv', scen.inv(w, r.post)))
        return obl
    st, post, A, step = r.st, r.post, r.A, r.step
    succ = r.res['success']
    obl.append(('inv_preserved', scen.inv(w, scen.post_ranks(w, st, post))))
    t = A.target
    # discovery only through a successful subnet scan run on a compromised host
    for a in w.addrs:
        changed = post[a]['disc'] != st[a]['disc']
        cause = z3.And(succ, A.kind == 'subnet_scan', st[t]['comp'] == 1, tz(w, t[0], a[0])) \
            if A.kind == 'subnet_scan' else z3.BoolVal(False)
        obl.append(('disc_change_only_by_scan_%d%d' % a, z3.Implies(changed, cause)))
    if A.kind == 'subnet_scan':
        for a in w.addrs:
            conn = tz(w, t[0], a[0])
            obl.append(('scan_discovers_all_%d%d' % a, z3.Implies(z3.And(succ, conn), post[a]['disc'] == 1)))
        res = r.res_obj
        # info dictionaries equal the spec sets on success
        disc = res.discovered
        newly = res.newly_discovered
        oks = []
        for a in w.addrs:
            conn = tz(w, t[0], a[0])
            d = sx.zbool(disc[a]) if a in disc else z3.BoolVal(False)
            n = sx.zbool(newly[a]) if a in newly else z3.BoolVal(False)
            oks.append(z3.Implies(succ, d == conn))
            oks.append(z3.Implies(succ, n == z3.And(conn, st[a]['disc'] == 0)))
            oks.append(z3.Implies(z3.Not(succ), z3.And(z3.Not(d), z3.Not(n))))
        obl.append(('scan_info_sets', z3.And(oks)))
    # reachability extends exactly by the connected subnets of a newly compromised host
    for a in w.addrs:
        newcomp = z3.Or([z3.And(post[g]['comp'] == 1, tz(w, g[0], a[0])) for g in w.addrs])
        obl.append(('reach_exact_%d%d' % a, (post[a]['reach'] == 1) == z3.Or(public(w, a[0]), newcomp)))
    return obl


def witnesses(r):
    if r.q['kind'] == 'reset':
        return ['reset']
    out = []
    succ = r.res['success']
    ok, _ = sx.valid(succ)
    if ok:
        out.append('success')
        if r.A.kind == 'subnet_scan':
            out.append('scan_discovers')
        if r.A.kind == 'exploit':
            out.append('exploit_extends_reach')
    else:
        ok2, _ = sx.valid(z3.Not(succ))
        if ok2:
            out.append('failure')
    return out


def describe(r):
    if r.q['kind'] == 'reset':
        return dict(kind='reset')
    m = lambda t: str(z3.simplify(t))
    return dict(action=r.A.kind, target=list(r.A.target),
                pre={str(a): {k: m(v) for k, v in d.items()} for a, d in r.st.items()},
                post={str(a): {k: m(v) for k, v in d.items()} for a, d in r.post.items()},
                success=m(r.res['success']))
prefer = common.prefer
