"""C11 -- action spaces enumerate exactly the scenario's actions.

(1) flat space: the real load_action_list / FlatActionSpace on a scenario whose exploit and
escalation definitions are symbolic (cost, prob, granted access; names enumerated per query):
length = |H| * (4 + E + PE) = Scenario.get_action_space_size(); per host exactly one of each scan
with the scenario's cost, exactly one action per exploit / escalation with equal cost, prob,
service | process, OS and granted access; two constructions give the same index -> action mapping.
(2) parameterised space: the six components of the vector are solver integers constrained only by
the real nvec; ParameterisedActionSpace.get_action is explored until the work list is empty, and
the disjunction of the path conditions is shown by the solver to cover the whole nvec box, so
EVERY vector is covered; each path asserts no exception and decode = documented action (host
index modulo the subnet size; undefined (service, OS) / (process, OS) -> NoOp with cost 0;
otherwise field-equal to a member of the flat list).
(3) mask: NASimEnv.get_action_mask() on a symbolic Inv-state: one entry per flat action,
mask[i] == discovered(target(i)).
"""
import z3

from .. import symex as sx
from .. import scen, spec, dyn, stubs, npmodel
from ..scen import Shape
from . import common

import nasim.envs.action as m_act
import nasim.envs.environment as m_env
import nasim.scenarios.utils as u

ID = "C11"
TECHNIQUE = "symbolic execution of the real load_action_list / ParameterisedActionSpace.get_action / get_action_mask by z3 proxy values; the whole parameter vector symbolic, path conditions shown to cover the nvec box; counterexample replay"
needs_reach = False
EXTRA_STUBS = dyn.EXTRA_STUBS
REQUIRED_WITNESSES = ['flat', 'param_exploit', 'param_privesc', 'param_scan', 'param_noop', 'mask', 'param_box_covered']
STUBS = common.STUBS
ASSUMPTIONS = ["exploit / escalation definitions: service / process / OS names enumerated per query, cost k/4 > 0, prob in [0,1], access in {1,2}",
               "where the class docstring (process index '0 = None') and nvec / code disagree the code's reading (process index = position in the scenario's process list) is taken",
               "mask: the current state is any Inv-state"]
BOUNDS = dict(quick="shapes [2,1],[1,2,1]; S=2,O=2,P=2; definition sets: {e(s0,o0), e(s1,None)} x {pe(p0,None)}, {e(s0,None), e(s0,o1)} x {pe(p1,o0), pe(p0,o0)}; every vector of nvec",
              thorough="adds [1,1],[3,1], S=3, and a third definition set with duplicate (service, OS) pairs")

DEFSETS = [
    dict(e=[('s0', 'o0'), ('s1', None)], pe=[('p0', None)]),
    dict(e=[('s0', None), ('s0', 'o1')], pe=[('p1', 'o0'), ('p0', 'o0')]),
    dict(e=[('s1', 'o1'), ('s1', 'o1'), ('s0', 'o0')], pe=[]),
    dict(e=[('s0', 'o0'), ('s1', None), ('s0', 'o1')], pe=[('p0', 'o0'), ('p1', None), ('p0', 'o1')]),
]


def queries(tier, seed=0):
    shapes = [Shape([2, 1], 2, 2, 2), Shape([1, 2, 1], 2, 2, 2), Shape([1, 2], 2, 2, 2, (6, 5)), Shape([3, 2], 2, 2, 2)]
    if tier != 'quick':
        shapes += [Shape([1, 1], 2, 2, 2), Shape([3, 1], 3, 2, 2)]
    qs = []
    for si, sh in enumerate(shapes):
        for di, ds in enumerate(DEFSETS):
            if tier == 'quick' and di >= 2 and si != 0:
                continue
            if tier == 'quick' and si == 3 and di != 0:
                continue
            for kind in ('flat', 'param', 'mask'):
                if kind == 'mask' and di > 0:
                    continue
                if kind == 'param' and di == 2 and tier == 'quick':
                    continue
                if kind == 'mask' and si == 3:
                    continue
                qs.append(dict(kind=kind, shape=sh.to_json(), defs=di))
    return qs


def build(src, q):
    shape = Shape.from_json(q['shape'])
    ds = DEFSETS[q['defs']]
    exploits, privescs = {}, {}
    D = dict(e={}, pe={})
    for i, (s, o) in enumerate(ds['e']):
        c = src.quarter('e%d_cost' % i, 1, 400)
        p = src.real('e%d_prob' % i, 0, 1)
        g = src.int('e%d_acc' % i, 1, 2)
        name = 'e%d' % i
        exploits[name] = {u.EXPLOIT_SERVICE: s, u.EXPLOIT_OS: o, u.EXPLOIT_PROB: p,
                          u.EXPLOIT_COST: c, u.EXPLOIT_ACCESS: g}
        D['e'][name] = dict(name=s, os=o, cost=c, prob=p, grant=g)
    for i, (pr, o) in enumerate(ds['pe']):
        c = src.quarter('pe%d_cost' % i, 1, 400)
        p = src.real('pe%d_prob' % i, 0, 1)
        g = src.int('pe%d_acc' % i, 1, 2)
        name = 'pe%d' % i
        privescs[name] = {u.PRIVESC_PROCESS: pr, u.PRIVESC_OS: o, u.PRIVESC_PROB: p,
                          u.PRIVESC_COST: c, u.PRIVESC_ACCESS: g}
        D['pe'][name] = dict(name=pr, os=o, cost=c, prob=p, grant=g)
    costs = dict(service=src.quarter('c_service', 0, 400), os=src.quarter('c_os', 0, 400),
                 subnet=src.quarter('c_subnet', 0, 400), process=src.quarter('c_process', 0, 400))
    w = scen.build_world(src, shape, exploits=exploits, privescs=privescs, scan_costs=costs,
                         host_fw=False, symbolic_values=False)
    w.defs = D
    w.scan_costs = costs
    return w


def act_fields(a):
    """an Action object -> comparable record of z3 terms / names"""
    kind = type(a).__name__
    d = dict(kind=kind, target=a.target, cost=spec.real(sx.znum(a.cost)), prob=spec.real(sx.znum(a.prob)),
             req=sx.znum(a.req_access))
    if kind == 'Exploit':
        d.update(name=a.service, os=a.os, grant=sx.znum(a.access))
    if kind == 'PrivilegeEscalation':
        d.update(name=a.process, os=a.os, grant=sx.znum(a.access))
    return d


def run(src, q):
    r = dyn.Rec()
    r.q = q
    w = build(src, q)
    r.w = w
    if q['kind'] == 'flat':
        with stubs.sut():
            sp1 = m_act.FlatActionSpace(w.scenario)
            sp2 = m_act.FlatActionSpace(w.scenario)
            r.size = w.scenario.get_action_space_size()
        r.n = int(sp1.n)
        r.l1 = [act_fields(a) for a in sp1.actions]
        r.l2 = [act_fields(a) for a in sp2.actions]
        with stubs.sut():
            r.got = [act_fields(sp1.get_action(i)) for i in range(len(sp1.actions))]
        # another scenario of the same name (same sizes, other definitions: every cost + 1)
        import copy
        from nasim.scenarios.scenario import Scenario
        sd2 = dict(w.scenario_dict)
        sd2[u.EXPLOITS] = {k: dict(v, **{u.EXPLOIT_COST: v[u.EXPLOIT_COST] + 1}) for k, v in sd2[u.EXPLOITS].items()}
        sd2[u.PRIVESCS] = {k: dict(v, **{u.PRIVESC_COST: v[u.PRIVESC_COST] + 1}) for k, v in sd2[u.PRIVESCS].items()}
        sd2[u.SERVICE_SCAN_COST] = sd2[u.SERVICE_SCAN_COST] + 1
        with stubs.sut():
            sp3 = m_act.FlatActionSpace(Scenario(sd2, name=w.scenario.name))
        r.l3 = [act_fields(a) for a in sp3.actions]
        return r
    if q['kind'] == 'mask':
        with stubs.sut():
            env = m_env.NASimEnv(w.scenario, flat_actions=True)
        r.pre = scen.symbolic_state(w, env.current_state)
        r.st = scen.zstatus(r.pre)
        if src.symbolic:
            sx.assume(scen.inv(w, r.st))
            sx.check_feasible()
        with stubs.sut():
            mask = env.get_action_mask()
        r.mask = [sx.znum(c) for c in (mask.cells() if isinstance(mask, npmodel.SArray) else mask)]
        r.targets = [a.target for a in env.action_space.actions]
        r.n = int(env.action_space.n)
        # the mask follows the current state: after a step and after a reset
        scan = [a for a in env.action_space.actions if a.is_subnet_scan() and a.target == w.addrs[0]][0]
        with stubs.ScriptedRand([], default=0.0):
            with stubs.sut():
                env.step(scan)
                mask2 = env.get_action_mask()
        r.mask_after_step = [sx.znum(c) for c in (mask2.cells() if isinstance(mask2, npmodel.SArray) else mask2)]
        r.disc_after_step = scen.read_status(w, env.current_state)
        with stubs.sut():
            env.reset()
            mask3 = env.get_action_mask()
        r.mask_after_reset = [sx.znum(c) for c in (mask3.cells() if isinstance(mask3, npmodel.SArray) else mask3)]
        return r
    # parameterised space
    with stubs.sut():
        sp = m_act.ParameterisedActionSpace(w.scenario)
    nvec = [int(x) for x in sp.nvec]
    r.nvec = nvec
    vec = [src.int('v%d' % i, 0, nvec[i] - 1) for i in range(6)]
    r.vec = [sx.znum(v) for v in vec]
    r.assumed = len(sx.cur().pc) if src.symbolic else 0     # V and the nvec box, before any branch
    carrier = q.get('carrier', 'list')
    arg = list(vec) if carrier == 'list' else tuple(vec)
    with stubs.sut():
        a = sp.get_action(arg)
    r.a = act_fields(a)
    r.is_noop = a.is_noop()
    r.flat = [act_fields(x) for x in sp.actions]
    return r


def _feq(x, y, keys):
    cs = []
    for k in keys:
        a, b = x.get(k), y.get(k)
        if k in ('grant',) and (a is None or b is None):
            cs.append(z3.BoolVal(a is None and b is None))
        elif z3.is_expr(a) or z3.is_expr(b):
            a, b = sx._coerce(sx.znum(a), sx.znum(b))
            cs.append(a == b)
        elif k == 'target':
            cs.append(z3.And(sx.znum(a[0]) == sx.znum(b[0]), sx.znum(a[1]) == sx.znum(b[1])))
        else:
            cs.append(z3.BoolVal(a == b))
    return z3.And(cs)


KEYS = ('kind', 'target', 'cost', 'prob', 'name', 'os', 'grant', 'req')


def obligations(r):
    q, w = r.q, r.w
    obl = []
    D = w.defs
    E, PE = len(D['e']), len(D['pe'])
    per = 4 + E + PE
    nh = len(w.addrs)
    if q['kind'] == 'flat':
        obl.append(('size_is_hosts_times_actions', z3.BoolVal(r.n == nh * per and len(r.l1) == r.n)))
        obl.append(('size_is_advertised_action_count', z3.BoolVal(sx.is_sym(r.size) is False and int(r.size) == r.n)))
        if len(r.l1) != nh * per:
            return obl
        # expected multiset per host, in any order: count matches == 1 for each expected action
        scans = dict(ServiceScan='service', OSScan='os', SubnetScan='subnet', ProcessScan='process')
        for a in w.addrs:
            mine = [x for x in r.l1 if tuple(x['target']) == a]
            obl.append(('actions_per_host_%d%d' % a, z3.BoolVal(len(mine) == per)))
            for cls, ck in scans.items():
                want = dict(kind=cls, target=a, cost=spec.real(sx.znum(w.scan_costs[ck])),
                            prob=z3.RealVal(1), req=z3.IntVal(1))
                cnt = z3.Sum([z3.If(_feq(x, want, ('kind', 'target', 'cost', 'prob', 'req')), 1, 0) for x in mine])
                obl.append(('one_%s_on_%d%d' % (cls, a[0], a[1]), cnt == 1))
            for nm, d in list(D['e'].items()) + list(D['pe'].items()):
                cls = 'Exploit' if nm.startswith('e') else 'PrivilegeEscalation'
                want = dict(kind=cls, target=a, cost=spec.real(sx.znum(d['cost'])),
                            prob=spec.real(sx.znum(d['prob'])), name=d['name'], os=d['os'],
                            grant=sx.znum(d['grant']), req=z3.IntVal(1))
                # structural duplicates in the definition set are distinct scenario entries:
                # count the entries of the scenario with the same fields
                defs = D['e'] if cls == 'Exploit' else D['pe']
                same_defs = z3.Sum([z3.If(_feq(dict(kind=cls, target=a, cost=spec.real(sx.znum(o['cost'])),
                                                  prob=spec.real(sx.znum(o['prob'])), name=o['name'],
                                                  os=o['os'], grant=sx.znum(o['grant']), req=z3.IntVal(1)),
                                             want, KEYS), 1, 0) for o in defs.values()])
                cnt = z3.Sum([z3.If(_feq(x, want, KEYS), 1, 0) for x in mine])
                obl.append(('one_action_per_definition_%s_on_%d%d' % (nm, a[0], a[1]), cnt == same_defs))
        obl.append(('index_mapping_same_for_two_constructions',
                    z3.And([_feq(x, y, KEYS) for x, y in zip(r.l1, r.l2)]) if len(r.l1) == len(r.l2) else z3.BoolVal(False)))
        obl.append(('get_action_is_list_index', z3.And([_feq(x, y, KEYS) for x, y in zip(r.l1, r.got)])))
        # same name, other definitions: costs of exploits / escalations / service scans are one higher
        if len(r.l3) == len(r.l1):
            cs = []
            for x, y in zip(r.l1, r.l3):
                if x['kind'] in ('Exploit', 'PrivilegeEscalation', 'ServiceScan'):
                    cs.append(y['cost'] == x['cost'] + 1)
                else:
                    cs.append(y['cost'] == x['cost'])
                cs.append(z3.BoolVal(x['kind'] == y['kind']))
            obl.append(('scenario_of_same_name_gets_its_own_actions', z3.And(cs)))
        else:
            obl.append(('scenario_of_same_name_gets_its_own_actions', z3.BoolVal(False)))
        return obl
    if q['kind'] == 'mask':
        obl.append(('mask_length', z3.BoolVal(len(r.mask) == r.n)))
        cs = []
        for i, t in enumerate(r.targets):
            cs.append(r.mask[i] == z3.If(r.st[tuple(t)]['disc'] == 1, 1, 0))
        obl.append(('mask_is_discovered_of_target', z3.And(cs)))
        if len(r.mask_after_step) == r.n and len(r.mask_after_reset) == r.n:
            obl.append(('mask_follows_state_after_step', z3.And(
                [r.mask_after_step[i] == z3.If(r.disc_after_step[tuple(t)]['disc'] == 1, 1, 0)
                 for i, t in enumerate(r.targets)])))
            obl.append(('mask_follows_state_after_reset', z3.And(
                [r.mask_after_reset[i] == z3.If(scen.public(w, tuple(t)[0]), 1, 0)
                 for i, t in enumerate(r.targets)])))
        else:
            obl.append(('mask_length_after_step_and_reset', z3.BoolVal(False)))
        return obl
    # parameterised decode
    v = r.vec
    a = r.a
    want_nvec = [6, len(w.shape.subnets) - 1, max(w.shape.subnets), w.shape.O + 1, w.shape.S, w.shape.P]
    obl.append(('nvec_as_documented', z3.BoolVal(r.nvec == want_nvec)))
    classes = ['Exploit', 'PrivilegeEscalation', 'ServiceScan', 'OSScan', 'SubnetScan', 'ProcessScan']
    sizes = w.shape.subnets
    # documented decode as a formula over v
    def subnet_is(s):
        return v[1] + 1 == s
    tgt_ok = z3.Or([z3.And(subnet_is(s), sx.znum(a['target'][0]) == s,
                           sx.znum(a['target'][1]) == v[2] % sizes[s]) for s in range(1, len(sizes))])
    def os_is(o):
        return v[3] == (0 if o is None else w.oss.index(o) + 1)
    cases = []
    scans = dict(ServiceScan='service', OSScan='os', SubnetScan='subnet', ProcessScan='process')
    for ti, cls in enumerate(classes):
        if cls in scans:
            want = z3.And(z3.BoolVal(a['kind'] == cls), tgt_ok,
                          a['cost'] == spec.real(sx.znum(w.scan_costs[scans[cls]])), a['prob'] == 1,
                          a['req'] == 1)
            cases.append(z3.Implies(v[0] == ti, want))
            continue
        defs = D['e'] if cls == 'Exploit' else D['pe']
        names = w.services if cls == 'Exploit' else w.procs
        comp = 4 if cls == 'Exploit' else 5
        matched_any = []
        for ni, nm in enumerate(names):
            for o in [None] + w.oss:
                sel = z3.And(v[0] == ti, v[comp] == ni, os_is(o))
                first = [d for d in defs.values() if d['name'] == nm and d['os'] == o]
                if first:
                    # documented: the action the scenario defines for (name, os); with duplicate
                    # pairs any of them is a member of the flat set
                    alts = [z3.And(z3.BoolVal(a['kind'] == cls and a.get('name') == nm and a.get('os') == o),
                                   tgt_ok, a['cost'] == spec.real(sx.znum(d['cost'])),
                                   a['prob'] == spec.real(sx.znum(d['prob'])),
                                   sx.znum(a.get('grant', 0)) == sx.znum(d['grant']), a['req'] == 1)
                            for d in first]
                    cases.append(z3.Implies(sel, z3.Or(alts)))
                else:
                    cases.append(z3.Implies(sel, z3.And(z3.BoolVal(a['kind'] == 'NoOp'), a['cost'] == 0)))
    obl.append(('decodes_to_documented_action', z3.And(cases)))
    member = z3.Or([_feq(a, x, KEYS) for x in r.flat] + [z3.BoolVal(a['kind'] == 'NoOp')])
    obl.append(('decoded_action_is_noop_or_flat_member', member))
    return obl


def witnesses(r):
    k = r.q['kind']
    if k == 'flat':
        return ['flat']
    if k == 'mask':
        return ['mask']
    kind = r.a['kind']
    return ['param_' + dict(Exploit='exploit', PrivilegeEscalation='privesc', NoOp='noop').get(kind, 'scan')]


def describe(r):
    if r.q['kind'] == 'param':
        return dict(vector=[str(z3.simplify(x)) for x in r.vec],
                    decoded={k: str(v) for k, v in r.a.items()})
    if r.q['kind'] == 'mask':
        return dict(mask=[str(z3.simplify(x)) for x in r.mask])
    return dict(n=r.n)


def main(tier, seed):
    """generic exploration + the box-coverage query for the parameterised decoder"""
    import time
    from .. import runner, lockstep, inject
    import importlib
    mod = importlib.import_module(__name__)
    report = runner.Report(ID, tier, seed)
    try:
        report.validated = lockstep.validate(seed, report)
        qs = queries(tier, seed)
        runner.explore_all(__name__, qs, report)
        # box coverage: in-process, per param query, PCs collected
        cov_ok = True
        ncov = 0
        inject.install(EXTRA_STUBS)
        try:
            for q in [q for q in qs if q['kind'] == 'param']:
                pcs = []
                dom = []

                def fn():
                    src = scen.SymSource()
                    k = [None]
                    try:
                        r = run(src, q)
                        k[0] = r.assumed
                    except stubs.SutException:
                        r = None
                    ctx = sx.cur()
                    pcs.append(z3.And(ctx.pc) if ctx.pc else z3.BoolVal(True))
                    if k[0] is not None and not dom:
                        dom.append(z3.And(ctx.pc[:k[0]]))
                    return None
                res, left = sx.explore(fn)
                if left or not dom:
                    cov_ok = False
                    report.errors.append("parameter box coverage: exploration incomplete")
                    continue
                # V and box (the common assumption prefix) entail the disjunction of the path conditions
                s = z3.Solver()
                s.add(dom[0])
                s.add(z3.Not(z3.Or(pcs)))
                rr = s.check()
                ncov += 1
                if rr != z3.unsat:
                    cov_ok = False
                    report.errors.append("parameter box not covered by the explored paths: %s" % (s.model() if rr == z3.sat else rr))
        finally:
            inject.uninstall()
        if cov_ok and ncov:
            report.witnesses['param_box_covered'] = ncov
        report.extra['param_box_coverage_queries'] = ncov
        return runner.finish(report, mod)
    except BaseException as e:
        import traceback
        traceback.print_exc()
        report.errors.append("%s: %s" % (type(e).__name__, e))
        runner.write_evidence(report, mod, False, 0)
        return runner.EXIT_HARNESS
