"""C15 -- the generator returns a well-formed scenario for every valid parameter set.

Stage-by-stage assume/guarantee checking of the real ScenarioGenerator methods (the monolithic run
explodes): every stage runs on a generator object whose fields are arbitrary values satisfying the
earlier stages' post-conditions; np.random.* returns arbitrary values of the documented ranges,
every call a named solver variable, so every seed is covered.

 stage                      symbolic                                    post-condition (obligation)
 _generate_subnets          num_hosts in [3,200]                        sizes >= 1, sum = num_hosts, DMZ / sensitive / user split
 _generate_topology         - (per subnet count)                        symmetric, reflexive, only DMZ public, connected
 _generate_address_space_bounds  bounds (ints / None, list / tuple)    accepted iff >= needed; stored
 _generate_exploits         choices, access draws, prob spec, cost      exactly E entries, defined names, prob in (0,1], cost
 _generate_privescs         choices, prob spec, cost                    exactly PE entries, ROOT, every OS covered or an agnostic one
 _generate_sensitive_hosts  random_goal, draws, rewards                 (2,0) and one user host with the requested values
 _get_host_config           alpha_H, alpha_V, lambda_V > 0, prev lists  one OS, >= 1 service, >= 1 process, no exception
 _generate_uniform_hosts / _generate_correlated_hosts                   one Host per address, values as requested
 _ensure_host_vulnerability arbitrary well-formed hosts                 sensitive hosts root-vulnerable, every subnet vulnerable
 _generate_firewall         arbitrary such hosts, restrictiveness       rules for exactly the connected pairs, 1..restrictiveness
 generate (glue)            whole stream, tiny parameter set            counts and fields as requested

Termination is decided in the only sense a bounded solver can: a path that asks for more random
values than the stage's bound is replayed on the real generator (scripted stream, then the real
RNG) under a watch-dog; only a run that never returns is a violation.
"""
import itertools

import z3

from .. import symex as sx
from .. import scen, spec, dyn, stubs, genh, npmodel
from ..genh import zb

import nasim.scenarios.generator as m_gen
import nasim.scenarios.utils as u

ID = "C15"
TECHNIQUE = "stage-wise assume/guarantee symbolic execution of the real ScenarioGenerator methods with the whole random stream and the numeric parameters as z3 variables; post-conditions decided by the solver; replay by scripting the stream into the real generator (watch-dog for non-termination)"
needs_reach = False
EXTRA_STUBS = genh.EXTRA_STUBS
REQUIRED_WITNESSES = ['subnets', 'topology', 'bounds', 'exploits', 'privescs', 'sensitive', 'hostcfg',
                      'uniform', 'correlated', 'vulnerability', 'firewall', 'glue']
STUBS = ["np.random.{choice,randint,rand,random_sample,poisson,seed} -> arbitrary values of the documented range, each a named solver variable (poisson capped at 2, cap reported)",
         "set (generator module) -> insertion-independent name set iterated in sorted order (hash order is C14's subject)",
         "np (generator module) -> array model for np.zeros", "math.ceil / int / float / isinstance / min / max -> virtual builtins"]
ASSUMPTIONS = ["assume/guarantee chain: each stage's inputs are arbitrary values satisfying the post-conditions proved for the earlier stages",
               "probability-1 termination of the retry loops under the real RNG is outside the claim; a stream from which NO continuation terminates is a violation",
               "np.random.poisson capped at 2 draws per configuration"]
BOUNDS = dict(quick="num_hosts 3..200 (subnet arithmetic); subnet counts 4..12 (topology); (S,O,E)/(P,O,PE) <= 2 (+ one over-subscribed set each); host stages: 3-4 hosts, S,O,P <= 2; restrictiveness 1..3",
              thorough="topology up to 24 subnets; name sets up to 3; 5 hosts in the vulnerability / firewall stages")
WATCHDOG_S = 3.0
GROUP_BY_QUERY = True


class Cap(Exception):
    pass


def queries(tier, seed=0):
    qs = [dict(stage='subnets')]
    for c in range(4, 13 if tier == 'quick' else 25):
        qs.append(dict(stage='topology', count=c))
    for n in (3, 8):
        for carrier in ('tuple', 'list', 'none'):
            qs.append(dict(stage='bounds', n=n, carrier=carrier))
    soe = [(1, 1, 1), (2, 1, 2), (1, 2, 2), (2, 2, 2), (1, 1, 3)]
    if tier != 'quick':
        soe += [(3, 2, 3), (2, 2, 3)]
    for (S, O, E) in soe:
        for pspec in ('float', 'none', 'mixed', 'list'):
            if (S, O, E) not in ((2, 1, 2), (1, 1, 3)) and pspec in ('mixed', 'list') and tier == 'quick':
                continue
            qs.append(dict(stage='exploits', S=S, O=O, E=E, pspec=pspec))
    pope = [(1, 1, 1), (2, 2, 2), (2, 2, 1), (1, 2, 2), (2, 1, 2)]
    if tier != 'quick':
        pope += [(3, 2, 3), (2, 3, 2)]
    for (P, O, PE) in pope:
        for pspec in ('float', 'none') if (P, O, PE) == (2, 2, 2) else ('float',):
            qs.append(dict(stage='privescs', P=P, O=O, PE=PE, pspec=pspec))
    for n in (3, 8, 13):
        for rg in (False, True):
            qs.append(dict(stage='sensitive', n=n, random_goal=rg))
    for hn in (0, 1, 2):
        for (S, O, P) in ((2, 2, 1), (1, 1, 2)):
            qs.append(dict(stage='hostcfg', host_num=hn, S=S, O=O, P=P))
    qs.append(dict(stage='uniform', n=3, S=2, O=2, P=1))
    qs.append(dict(stage='uniform', n=4, S=1, O=1, P=2))
    qs.append(dict(stage='correlated', n=3, S=1, O=1, P=1))
    vdefs = [dict(e=[(0, 0), (1, None)], pe=[(0, None)]), dict(e=[(0, 1)], pe=[(0, 0), (1, 1)]),
             dict(e=[(1, None)], pe=[(1, None)])]
    for n in ((3, 4) if tier == 'quick' else (3, 4, 5)):
        for di, d in enumerate(vdefs):
            qs.append(dict(stage='vulnerability', n=n, S=2, O=2, P=2, defs=di))
    if tier == 'quick':
        qs.append(dict(stage='vulnerability', n=5, S=1, O=2, P=1, defs=3))     # a user subnet of three hosts
    for n in ((3,) if tier == 'quick' else (3, 4)):
        for rs in (1, 2, 3):
            for di in (0, 1):
                qs.append(dict(stage='firewall', n=n, S=2, O=2, P=1, defs=di, restrictiveness=rs))
    qs.append(dict(stage='firewall', n=8, S=2, O=1, P=1, defs=2, restrictiveness=1, concrete_hosts=True))
    qs.append(dict(stage='firewall', n=13, S=2, O=1, P=1, defs=2, restrictiveness=1, concrete_hosts=True))
    qs.append(dict(stage='glue', n=3, S=1, O=1, P=1))
    return qs


VDEFS = [dict(e=[(0, 0), (1, None)], pe=[(0, None)]), dict(e=[(0, 1)], pe=[(0, 0), (1, 1)]),
         dict(e=[(1, None)], pe=[(1, None)]), dict(e=[(0, 1)], pe=[(0, None)])]
FDEFS = [dict(e=[(0, 0), (1, None)]), dict(e=[(0, None), (1, 1)]), dict(e=[(0, None)])]


def probs_spec(src, kind, n):
    if kind == 'float':
        p = src.real('p_spec', None, 1)
        if src.symbolic:
            sx.assume(sx.znum(p) > 0)
        return p
    if kind == 'none':
        return None
    if kind == 'mixed':
        return 'mixed'
    lst = []
    for i in range(n):
        p = src.real('p_spec%d' % i, None, 1)
        if src.symbolic:
            sx.assume(sx.znum(p) > 0)
        lst.append(p)
    return lst


def run(src, q):
    r = dyn.Rec()
    r.q = q
    r.capped = False
    st = q['stage']
    # stream bounds: exploits draw 3 values per loop iteration (two extra iterations allowed);
    # escalations draw PE values per os_choices round (two rounds) + one per loop iteration
    cap = dict(exploits=3 * (q.get('E', 1) + 2), privescs=3 * q.get('PE', 1) + 2).get(st, 80)
    pc = 1 if st in ('correlated',) else 2
    try:
        with genh.stream(src, cap=cap, poisson_cap=pc) as rnd:
            r.rnd = rnd
            _run_stage(src, q, r)
    except genh.StreamCap as e:
        r.capped = True
        r.cap_msg = str(e)
    return r


def _run_stage(src, q, r):
    st = q['stage']
    if st == 'subnets':
        g = m_gen.ScenarioGenerator()
        n = src.int('num_hosts', 3, 200)
        r.n = sx.znum(n)
        with stubs.sut():
            g._generate_subnets(n)
        r.subnets = list(g.subnets)
    elif st == 'topology':
        c = q['count']
        g = genh.new_generator(1, 1, 1, subnets=[1, 1, 1] + [5] * (c - 4) + [2])
        with stubs.sut():
            g._generate_topology()
        T = g.topology
        r.T = [[float(T[i][j]) for j in range(c)] for i in range(c)]
    elif st == 'bounds':
        g = genh.new_generator(1, 1, 1, subnets=genh.subnets_for(q['n']))
        if q['carrier'] == 'none':
            arg = None
            r.b = None
        else:
            b0, b1 = src.int('b0', -2, 40), src.int('b1', -2, 40)
            r.b = (sx.znum(b0), sx.znum(b1))
            arg = (b0, b1) if q['carrier'] == 'tuple' else [b0, b1]
        r.need = (len(g.subnets), max(g.subnets))
        r.raised = None
        try:
            with stubs.sut():
                g._generate_address_space_bounds(arg)
            r.stored = g.address_space_bounds
        except stubs.SutException as e:
            r.raised = e.exc
    elif st == 'exploits':
        g = genh.new_generator(q['S'], q['O'], 1)
        cost = src.quarter('e_cost', 1, 400)
        ps = probs_spec(src, q['pspec'], q['E'])
        r.g, r.cost, r.ps = g, cost, ps
        with stubs.sut():
            g._generate_exploits(q['E'], cost, ps)
        r.exploits = g.exploits
    elif st == 'privescs':
        g = genh.new_generator(1, q['O'], q['P'])
        cost = src.quarter('pe_cost', 1, 400)
        ps = probs_spec(src, q['pspec'], q['PE'])
        r.g, r.cost, r.ps = g, cost, ps
        with stubs.sut():
            g._generate_privescs(q['PE'], cost, ps)
        r.privescs = g.privescs
    elif st == 'sensitive':
        g = genh.new_generator(1, 1, 1, subnets=genh.subnets_for(q['n']))
        rs, ru = src.quarter('r_sensitive', 1, 400), src.quarter('r_user', 1, 400)
        r.g, r.rs, r.ru = g, rs, ru
        with stubs.sut():
            g._generate_sensitive_hosts(rs, ru, q['random_goal'])
        r.sens = g.sensitive_hosts
    elif st == 'hostcfg':
        g = genh.new_generator(q['S'], q['O'], q['P'])
        aH, aV, lV = src.real('alpha_H', None, 64), src.real('alpha_V', None, 64), src.real('lambda_V', None, 64)
        if src.symbolic:
            for x in (aH, aV, lV):
                sx.assume(sx.znum(x) > 0)
        hn = q['host_num']
        prev_configs = [(g.os[i % q['O']], [True] * q['S'], [True] + [False] * (q['P'] - 1)) for i in range(hn)]
        prev_os = [g.os[i % q['O']] for i in range(hn)]
        prev_srvs = [src.int('ps%d' % i, 0, q['S'] - 1) for i in range(hn)]
        prev_procs = [src.int('pp%d' % i, 0, q['P'] - 1) for i in range(hn)]
        r.g = g
        r.prev = (prev_configs, prev_os, prev_srvs, prev_procs)
        with stubs.sut():
            r.cfg = g._get_host_config(hn, aH, prev_configs, aV, lV, prev_os, prev_srvs, prev_procs)
    elif st in ('uniform', 'correlated'):
        g = genh.new_generator(q['S'], q['O'], q['P'], subnets=genh.subnets_for(q['n']))
        g.sensitive_hosts = {(2, 0): src.quarter('r_sensitive', 1, 400),
                             (len(g.subnets) - 1, g.subnets[-1] - 1): src.quarter('r_user', 1, 400)}
        g.base_host_value = src.quarter('base_value', -400, 400)
        g.host_discovery_value = src.quarter('disc_value', -400, 400)
        r.g = g
        with stubs.sut():
            if st == 'uniform':
                g._generate_uniform_hosts()
            else:
                g._generate_correlated_hosts(2.0, 2.0, 1.0)
        r.hosts = g.hosts
    elif st == 'vulnerability':
        g = genh.new_generator(q['S'], q['O'], q['P'], subnets=genh.subnets_for(q['n']))
        d = VDEFS[q['defs']]
        g.exploits = genh.symbolic_exploits(src, g, d['e'])
        g.privescs = genh.symbolic_privescs(src, g, d['pe'])
        assert genh.privescs_cover_every_os(g, g.privescs)
        g.sensitive_hosts = {(2, 0): 10, (len(g.subnets) - 1, g.subnets[-1] - 1): 10}
        g.hosts, r.bits = genh.symbolic_hosts(src, g, g.sensitive_hosts)
        if src.symbolic:
            sx.check_feasible()
        r.g = g
        with stubs.sut():
            g._ensure_host_vulnerability()
    elif st == 'firewall':
        g = genh.new_generator(q['S'], q['O'], q['P'], subnets=genh.subnets_for(q['n']))
        d = FDEFS[q['defs']]
        g.exploits = genh.symbolic_exploits(src, g, d['e'])
        g.privescs = {}
        g.sensitive_hosts = {(2, 0): 10, (len(g.subnets) - 1, g.subnets[-1] - 1): 10}
        g._generate_topology_ = None
        with stubs.sut():
            g._generate_topology()
        if q.get('concrete_hosts'):
            from nasim.scenarios.host import Host
            g.hosts = {}
            for s, size in enumerate(g.subnets):
                for h in range(size if s else 0):
                    g.hosts[(s, h)] = Host((s, h), {o: i == 0 for i, o in enumerate(g.os)},
                                           {x: True for x in g.services}, {x: True for x in g.processes}, {})
        else:
            g.hosts, r.bits = genh.symbolic_hosts(src, g, g.sensitive_hosts)
            if src.symbolic:
                # post-condition of the vulnerability stage: every subnet has a vulnerable host
                for s in range(1, len(g.subnets)):
                    sx.assume(z3.Or([genh.host_vulnerable(h, g.exploits, g.privescs, False)
                                     for a, h in g.hosts.items() if a[0] == s]))
                sx.check_feasible()
        r.g = g
        with stubs.sut():
            g._generate_firewall(q['restrictiveness'])
        r.fw = g.firewall
    elif st == 'glue':
        g = m_gen.ScenarioGenerator()
        kw = dict(num_os=q['O'], num_processes=q['P'], uniform=True, restrictiveness=1,
                  r_sensitive=src.quarter('r_sensitive', 1, 400), r_user=src.quarter('r_user', 1, 400),
                  exploit_cost=src.quarter('e_cost', 1, 400), privesc_cost=src.quarter('pe_cost', 1, 400),
                  service_scan_cost=src.quarter('c_service', 0, 400), os_scan_cost=src.quarter('c_os', 0, 400),
                  subnet_scan_cost=src.quarter('c_subnet', 0, 400), process_scan_cost=src.quarter('c_process', 0, 400),
                  base_host_value=src.quarter('base_value', -400, 400),
                  host_discovery_value=src.quarter('disc_value', -400, 400),
                  step_limit=src.int('limit', 1, None), seed=src.int('seed', 0, None), name='glue')
        r.kw = kw
        with stubs.sut():
            r.sc = g.generate(q['n'], q['S'], **kw)
        r.seed_log = [x for x in r.rnd.log if x[0] == 'seed']
    else:
        raise RuntimeError("unknown stage " + st)


def _real(x):
    return spec.real(sx.znum(x))


def _in01(p):
    p = _real(p)
    return z3.And(p > 0, p <= 1)


def _prob_ok(q, r, i, p, n):
    ps = r.ps
    if q['pspec'] == 'float':
        return _real(p) == _real(ps)
    if q['pspec'] == 'list':
        return _real(p) == _real(ps[i])
    if q['pspec'] == 'mixed':
        levels = [0.6, 0.9] if n == 1 else [0.3, 0.6, 0.9]
        return z3.Or([_real(p) == _real(x) for x in levels])
    return z3.BoolVal(True)


def obligations(r):
    q = r.q
    st = q['stage']
    if r.capped:
        return [('terminates_within_stream_bound', z3.BoolVal(False))]
    obl = []
    if st == 'subnets':
        n = r.n
        sub = [sx.znum(x) for x in r.subnets]
        obl.append(('sizes_positive', z3.And([x >= 1 for x in sub])))
        obl.append(('sizes_sum_to_num_hosts', z3.Sum(sub[1:]) == n))
        obl.append(('internet_entry', sub[0] == 1))
        obl.append(('at_least_one_user_subnet', z3.BoolVal(len(sub) >= 4)))
        if len(sub) >= 4:
            # DMZ gets one host per 40, sensitive one per 41 (ceil), user subnets hold <= 5
            obl.append(('dmz_size', z3.And(40 * (sub[1] - 1) < n, n <= 40 * sub[1])))
            obl.append(('sensitive_size', z3.And(41 * (sub[2] - 1) < n, n <= 41 * sub[2])))
            obl.append(('user_subnets_full_but_last', z3.And([x == 5 for x in sub[3:-1]] + [sub[-1] <= 5])))
    elif st == 'topology':
        T, c = r.T, q['count']
        sym = all(T[i][j] == T[j][i] for i in range(c) for j in range(c))
        refl = all(T[i][i] == 1 for i in range(c))
        bits = all(T[i][j] in (0, 1) for i in range(c) for j in range(c))
        public = [s for s in range(1, c) if T[s][0] == 1]
        obl.append(('symmetric_reflexive_01', z3.BoolVal(sym and refl and bits)))
        obl.append(('only_dmz_public', z3.BoolVal(public == [1] and [s for s in range(1, c) if T[0][s] == 1] == [1])))
        seen, stack = {1}, [1]
        while stack:
            v = stack.pop()
            for w_ in range(1, c):
                if w_ not in seen and T[v][w_] == 1:
                    seen.add(w_)
                    stack.append(w_)
        obl.append(('every_subnet_connected_to_dmz', z3.BoolVal(len(seen) == c - 1)))
        tree = all(T[row][((row - 3 - 1) // 2) + 3] == 1 for row in range(4, c))
        edges = sum(1 for i in range(3, c) for j in range(i + 1, c) if T[i][j] == 1)
        obl.append(('user_subnets_form_binary_tree', z3.BoolVal(tree and edges == c - 4)))
    elif st == 'bounds':
        need = r.need
        if r.b is None:
            obl.append(('default_bounds', z3.BoolVal(r.raised is None and tuple(r.stored) == need)))
        else:
            valid_ = z3.And(r.b[0] >= need[0], r.b[1] >= need[1])
            if r.raised is not None:
                obl.append(('valid_bounds_accepted', z3.Not(valid_)))
            else:
                obl.append(('invalid_bounds_refused', valid_))
                stored = r.stored
                obl.append(('bounds_stored', z3.And(z3.BoolVal(isinstance(stored, tuple) and len(stored) == 2),
                                                    sx.znum(stored[0]) == r.b[0], sx.znum(stored[1]) == r.b[1])))
    elif st == 'exploits':
        ex, g = r.exploits, r.g
        obl.append(('exact_number_of_exploits', z3.BoolVal(len(ex) == q['E'])))
        for i, (nm, e) in enumerate(ex.items()):
            names_ok = e[u.EXPLOIT_SERVICE] in g.services and (e[u.EXPLOIT_OS] is None or e[u.EXPLOIT_OS] in g.os)
            obl.append(('exploit_%d_names_defined' % i, z3.BoolVal(bool(names_ok))))
            obl.append(('exploit_%d_prob_in_0_1' % i, _in01(e[u.EXPLOIT_PROB])))
            obl.append(('exploit_%d_prob_as_requested' % i, _prob_ok(q, r, i, e[u.EXPLOIT_PROB], q['E'])))
            obl.append(('exploit_%d_cost_as_requested' % i, _real(e[u.EXPLOIT_COST]) == _real(r.cost)))
            acc = sx.znum(e[u.EXPLOIT_ACCESS])
            obl.append(('exploit_%d_access_level' % i, z3.Or(acc == 1, acc == 2)))
    elif st == 'privescs':
        pe, g = r.privescs, r.g
        obl.append(('exact_number_of_privescs', z3.BoolVal(len(pe) == q['PE'])))
        for i, (nm, e) in enumerate(pe.items()):
            names_ok = e[u.PRIVESC_PROCESS] in g.processes and (e[u.PRIVESC_OS] is None or e[u.PRIVESC_OS] in g.os)
            obl.append(('privesc_%d_names_defined' % i, z3.BoolVal(bool(names_ok))))
            obl.append(('privesc_%d_prob_in_0_1' % i, _in01(e[u.PRIVESC_PROB])))
            obl.append(('privesc_%d_prob_as_requested' % i, _prob_ok(q, r, i, e[u.PRIVESC_PROB], q['PE'])))
            obl.append(('privesc_%d_cost_as_requested' % i, _real(e[u.PRIVESC_COST]) == _real(r.cost)))
            obl.append(('privesc_%d_grants_root' % i, sx.znum(e[u.PRIVESC_ACCESS]) == 2))
        obl.append(('every_os_has_an_escalation', z3.BoolVal(genh.privescs_cover_every_os(g, pe))))
    elif st == 'sensitive':
        sens, g = r.sens, r.g
        keys = [(int(a[0]), int(a[1])) for a in sens.keys()]
        ok = len(keys) == 2 and (2, 0) in keys
        obl.append(('two_sensitive_hosts_one_in_sensitive_subnet', z3.BoolVal(ok)))
        if ok:
            other = [k for k in keys if k != (2, 0)][0]
            valid_addr = 3 <= other[0] < len(g.subnets) and 0 <= other[1] < g.subnets[other[0]]
            obl.append(('user_goal_is_a_user_host', z3.BoolVal(valid_addr)))
            if not q['random_goal']:
                obl.append(('default_user_goal_is_last_host', z3.BoolVal(other == (len(g.subnets) - 1, g.subnets[-1] - 1))))
            vals = {(int(a[0]), int(a[1])): v for a, v in sens.items()}
            obl.append(('requested_values', z3.And(_real(vals[(2, 0)]) == _real(r.rs), _real(vals[other]) == _real(r.ru))))
    elif st == 'hostcfg':
        g = r.g
        os_, srv, prc = r.cfg
        obl.append(('os_defined', z3.BoolVal(str(os_) in g.os)))
        obl.append(('service_config_shape', z3.BoolVal(len(srv) == q['S'] and len(prc) == q['P'])))
        obl.append(('at_least_one_service', z3.Or([zb(b) for b in srv]) if len(srv) else z3.BoolVal(False)))
        obl.append(('at_least_one_process', z3.Or([zb(b) for b in prc]) if len(prc) else z3.BoolVal(False)))
        pc, po, psv, pp = r.prev
        obl.append(('history_lists_stay_valid', z3.And(
            [z3.BoolVal(str(x) in g.os) for x in po] +
            [z3.And(sx.znum(x) >= 0, sx.znum(x) < q['S']) for x in psv] +
            [z3.And(sx.znum(x) >= 0, sx.znum(x) < q['P']) for x in pp] + [z3.BoolVal(len(pc) == q['host_num'] + 1)])))
    elif st in ('uniform', 'correlated'):
        g, hosts = r.g, r.hosts
        addrs = [(s, h) for s, size in enumerate(g.subnets) if s for h in range(size)]
        obl.append(('one_host_per_address', z3.BoolVal(list(hosts.keys()) == addrs)))
        for a, h in hosts.items():
            obl.append(('host_%d_%d_well_formed' % a, genh.host_well_formed(h)))
            names_ok = list(h.os.keys()) == g.os and list(h.services.keys()) == g.services and \
                list(h.processes.keys()) == g.processes and h.address == a
            obl.append(('host_%d_%d_names' % a, z3.BoolVal(bool(names_ok))))
            want = g.sensitive_hosts.get(a, g.base_host_value)
            obl.append(('host_%d_%d_value' % a, _real(h.value) == _real(want)))
            obl.append(('host_%d_%d_discovery_value' % a, _real(h.discovery_value) == _real(g.host_discovery_value)))
    elif st == 'vulnerability':
        g = r.g
        for a, h in g.hosts.items():
            obl.append(('host_%d_%d_still_well_formed' % a, genh.host_well_formed(h)))
        for a in g.sensitive_hosts:
            obl.append(('sensitive_%d_%d_root_vulnerable' % a,
                        genh.host_vulnerable(g.hosts[a], g.exploits, g.privescs, True)))
        for s in range(1, len(g.subnets)):
            obl.append(('subnet_%d_has_vulnerable_host' % s,
                        z3.Or([genh.host_vulnerable(h, g.exploits, g.privescs, False)
                               for a, h in g.hosts.items() if a[0] == s])))
    elif st == 'firewall':
        g, fw = r.g, r.fw
        n = len(g.subnets)
        T = g.topology
        want_pairs = sorted((i, j) for i in range(n) for j in range(n) if i != j and float(T[i][j]) == 1)
        obl.append(('rules_for_exactly_the_connected_pairs', z3.BoolVal(sorted(fw.keys()) == want_pairs)))
        rs = q['restrictiveness']
        for (i, j), allowed in fw.items():
            al = list(allowed)
            obl.append(('rule_%d_%d_defined_services' % (i, j), z3.BoolVal(all(x in g.services for x in al) and len(set(al)) == len(al))))
            if i > 2 and j > 2:
                obl.append(('rule_%d_%d_user_to_user_open' % (i, j), z3.BoolVal(sorted(al) == sorted(g.services))))
            elif j != 0:
                obl.append(('rule_%d_%d_one_to_restrictiveness' % (i, j), z3.BoolVal(1 <= len(al) <= rs)))
                # each allowed service is exploitable on some host of the destination
                for x in al:
                    expl = z3.Or([genh.vulnerable_to_exploit(h, e) for a, h in g.hosts.items() if a[0] == j
                                  for e in g.exploits.values() if e[u.EXPLOIT_SERVICE] == x] or [z3.BoolVal(False)])
                    obl.append(('rule_%d_%d_%s_exploitable_at_destination' % (i, j, x), expl))
    elif st == 'glue':
        sc, kw = r.sc, r.kw
        n = q['n']
        obl.append(('counts_as_requested', z3.BoolVal(
            len(sc.hosts) == n and len(sc.os) == q['O'] and len(sc.services) == q['S'] and
            len(sc.processes) == q['P'] and len(sc.exploits) == q['S'] and len(sc.privescs) == q['P'] and
            sum(sc.subnets) == n + 1)))
        obl.append(('scan_costs_copied', z3.And(_real(sc.service_scan_cost) == _real(kw['service_scan_cost']),
                                                _real(sc.os_scan_cost) == _real(kw['os_scan_cost']),
                                                _real(sc.subnet_scan_cost) == _real(kw['subnet_scan_cost']),
                                                _real(sc.process_scan_cost) == _real(kw['process_scan_cost']))))
        obl.append(('step_limit_and_name', z3.And(sx.znum(sc.step_limit) == sx.znum(kw['step_limit']),
                                                  z3.BoolVal(sc.name == 'glue' and bool(sc.generated)))))
        obl.append(('default_address_bounds', z3.BoolVal(tuple(sc.address_space_bounds) == (len(sc.subnets), max(sc.subnets)))))
        obl.append(('seeded', z3.And(z3.BoolVal(len(r.seed_log) == 1),
                                      sx.znum(r.seed_log[0][1]) == sx.znum(kw['seed']))
                    if len(r.seed_log) == 1 and r.seed_log[0][1] is not None else z3.BoolVal(False)))
        sens = {(int(a[0]), int(a[1])): v for a, v in sc.sensitive_hosts.items()}
        obl.append(('sensitive_hosts', z3.And(z3.BoolVal(set(sens) == {(2, 0), (3, 0)}),
                                              *[_real(sens.get((2, 0), 0)) == _real(kw['r_sensitive']),
                                                _real(sens.get((3, 0), 0)) == _real(kw['r_user'])])))
        for a, h in sc.hosts.items():
            obl.append(('host_%d_%d_well_formed' % a, genh.host_well_formed(h)))
            want = sens.get(a, kw['base_host_value'])
            obl.append(('host_%d_%d_values' % a, z3.And(_real(h.value) == _real(want),
                                                         _real(h.discovery_value) == _real(kw['host_discovery_value']))))
        for nm, e in sc.exploits.items():
            obl.append(('exploit_%s' % nm, z3.And(_real(e[u.EXPLOIT_COST]) == _real(kw['exploit_cost']), _real(e[u.EXPLOIT_PROB]) == 1)))
        for nm, e in sc.privescs.items():
            obl.append(('privesc_%s' % nm, z3.And(_real(e[u.PRIVESC_COST]) == _real(kw['privesc_cost']), _real(e[u.PRIVESC_PROB]) == 1)))
        for a in sens:
            if a in sc.hosts:
                obl.append(('sensitive_%d_%d_root_vulnerable' % a,
                            genh.host_vulnerable(sc.hosts[a], sc.exploits, sc.privescs, True)))
    return obl


def witnesses(r):
    return [] if r.capped else [r.q['stage']]


def describe(r):
    return dict(stage=r.q['stage'], capped=r.capped, stream=[n for n, _ in getattr(r.rnd, 'log', []) if n != 'seed'][:40])


def replay_confirm(failure):
    """replays: ordinary obligations -> generic concrete re-run; stream-bound overruns -> the real
    generator under a watch-dog (only a run that never returns is a violation)"""
    from .. import replay as _replay
    import sys
    mod = sys.modules[__name__]
    if failure['obligation'] != 'terminates_within_stream_bound':
        saved = mod.replay_confirm
        try:
            del mod.replay_confirm
            return _replay.confirm(mod, failure)
        finally:
            mod.replay_confirm = saved
    import multiprocessing as mp
    ctx = mp.get_context('fork')
    qres = ctx.Queue()

    def target():
        try:
            src = scen.ConcSource(failure['model'])
            q = dict(failure['q'])
            rr = dyn.Rec()
            rr.q = q
            with genh.stream(src, cap=None, poisson_cap=2) as rnd:
                rr.rnd = rnd
                _run_stage(src, q, rr)
            qres.put('returned')
        except BaseException as e:
            qres.put('raised %r' % (e,))
    p = ctx.Process(target=target)
    p.start()
    p.join(WATCHDOG_S)
    if p.is_alive():
        p.terminate()
        p.join()
        return 'confirmed', dict(stage=failure['q']['stage'], hang=True,
                                 note="real generator with the model's stream prefix did not return within %.0f s" % WATCHDOG_S,
                                 inputs=failure['model'])
    out = qres.get() if not qres.empty() else 'no result'
    return 'benign', "real generator %s after the scripted prefix: unlucky draws, not a stuck loop" % out
