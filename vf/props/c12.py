"""C12 -- observation and action modes do not change the dynamics.

Relational: one symbolic scenario / pre-state / action / draw / step counter / step limit; the real
NASimEnv is built in each of the 8 (fully_obs, flat_actions, flat_obs) combinations, put into the
same symbolic state and stepped with the same draw (stream rewound).  The action is given the way
each mode's users give it: its index in the flat space, or its parameter vector in the
parameterised space, and decoded by the real decoders.  Obligations, pairwise against the first
mode: next-state cells, reward, terminal flag, step-limit flag and info fields are equal;
observations of equal observability are equal up to row-major flattening; a partially observable
observation is a masking of the fully observable one with the same auxiliary row.
"""
import itertools

import z3

from .. import symex as sx
from .. import scen, spec, dyn, stubs, npmodel
from ..scen import Shape
from . import common
from .c13 import info_terms

import nasim.envs.environment as m_env

ID = "C12"
TECHNIQUE = "relational symbolic execution of the real NASimEnv.step under all 8 mode combinations on shared z3 inputs (scenario, state, action, draw, counter, limit); counterexample replay"
needs_reach = True
EXTRA_STUBS = dyn.EXTRA_STUBS
REQUIRED_WITNESSES = ['success_exploit', 'success_privesc', 'success_subnet_scan', 'failure']
STUBS, ASSUMPTIONS = common.STUBS, common.ASSUMPTIONS + ["actions are those of the scenario's action spaces (req_access = USER, as both decoders construct them)"]
BOUNDS = dict(quick="shapes [1,1],[2,1]; S=2,O=2,P=1; every action kind on first/last host, OS None and last OS; 8 mode combinations; steps any int >= 0, limit None or any int > 0",
              thorough="adds [1,1,1] and environments without a step limit")
prefer = common.prefer
MODES = list(itertools.product((False, True), (True, False), (True, False)))   # fully_obs, flat_actions, flat_obs


def queries(tier, seed=0):
    qs = []
    kinds = [k for k in scen.KINDS if k != 'noop']
    # thorough = the quick grid plus the three-subnet shape and environments without a step limit
    # (every target / name of the larger shapes x 8 environments per path does not fit the budget)
    for q in dyn.base_queries('quick', level='step', kinds=kinds):
        if tier == 'quick' and len(q['shape']['sizes']) > 2:
            continue
        q = dict(q, shape=dict(q['shape'], P=2))
        if q['kind'] == 'privesc':
            q['name'] = 'p1'
        for lim in (('sym',) if tier == 'quick' else ('sym', 'none')):
            d = dict(q)
            d['limit'] = lim
            d['req_sym'] = False
            qs.append(d)
    return qs


def run(src, q):
    shape = Shape.from_json(q['shape'])
    limit = src.int('limit', 1, None) if q.get('limit') == 'sym' else None
    w = scen.build_world(src, shape, step_limit=limit, scan_costs=dyn.symbolic_scan_costs(src))
    A = scen.make_action(w, q['kind'], tuple(q['target']), q.get('name'), q.get('os'),
                         req_symbolic=False)
    r = dyn.Rec()
    r.q, r.w, r.A = q, w, A
    draws = []
    if not src.symbolic:
        i = 0
        while ("u%d" % i) in src.m:
            draws.append(src.real("u%d" % i))
            i += 1
    scripted = stubs.ScriptedRand(draws, default=0.0)
    dyn.scenario_actions(w, A, decoys=True)
    steps = src.int('steps', 0, None)
    r.runs = []
    r.pre = None
    r.second = None
    from .. import hidden
    envs = []
    changed = []
    skip = {('env', 'np_random'), ('env', '_np_random'), ('env', '_np_random_seed'),
            ('env', 'current_state'), ('env', 'last_obs'), ('env', 'steps')}
    with scripted:
        for k, (fo, fa, fob) in enumerate(MODES):
            with stubs.sut():
                env = m_env.NASimEnv(w.scenario, fully_obs=fo, flat_actions=fa, flat_obs=fob)
            envs.append(env)
            _ = (w.scenario.exploit_map, w.scenario.privesc_map)      # documented lazy memo: warm it
            before = hidden.snapshot(dict(env=env, net=env.network), skip)
            _one(src, r, w, A, env, (fo, fa, fob), steps, scripted, "", k == 0)
            changed += hidden.diff(before, hidden.snapshot(dict(env=env, net=env.network), skip))
        if changed:
            # something outside the state was modified by a step (induction premise broken):
            # a second step of the same environments from a fresh arbitrary Inv-state
            r2 = dyn.Rec()
            r2.q, r2.w, r2.A, r2.runs, r2.pre, r2.second = q, w, A, [], None, None
            for k, env in enumerate(envs):
                env.current_state = env.current_state.copy()
                _one(src, r2, w, A, env, MODES[k], steps, scripted, "y", k == 0)
            r.second = r2
    return r


def _one(src, r, w, A, env, mode, steps, scripted, tag, first):
    fo, fa, fob = mode
    pre = scen.symbolic_state(w, env.current_state, tag=tag)      # same variable names: shared inputs
    if r.pre is None:
        r.pre = pre
        r.st = scen.zstatus(pre)
        if src.symbolic:
            sx.assume(scen.inv(w, r.st))
            sx.check_feasible()
    env.steps = steps
    if tag:
        if src.symbolic:
            sx.cur().notes['draw_ptr'] = 1 if len(sx.cur().draws) >= 1 else 0
            r.draw_base = 1
        else:
            scripted.calls = 1
    else:
        stubs.rewind_draws(scripted)
    a_in = dyn.encode(env, w, A, fa)
    with stubs.sut():
        o, reward, done, lim, info = env.step(a_in)
    cells = o.cells() if isinstance(o, npmodel.SArray) else list(o.flatten())
    r.runs.append(dict(
        mode=(fo, fa, fob), ns_rows=dyn.tensor_rows(env.current_state.tensor),
        obs_cells=[sx.znum(c) for c in cells], obs_shape=tuple(o.shape),
        reward=spec.real(sx.znum(reward)), done=sx.zbool(done), lim=sx.zbool(lim),
        info=info_terms(info), steps=sx.znum(env.steps)))
    if first:
        r.res = dict(success=sx.zbool(info['success']), value=spec.real(sx.znum(info['value'])),
                     conn=sx.zbool(info['connection_error']),
                     perm=sx.zbool(info['permission_error']),
                     undef=sx.zbool(info['undefined_error']))
        r.post = scen.read_status(w, env.current_state)
        r.ndraws = len(sx.cur().draws) if src.symbolic else scripted.calls


def obligations(r):
    obl = []
    base = r.runs[0]
    nh = len(r.w.addrs)
    size = len(base['ns_rows'][0])
    for run_ in r.runs[1:]:
        tag = "fo%d_fa%d_flat%d" % tuple(int(b) for b in run_['mode'])
        obl.append(('next_state_equal_' + tag, common.rows_equal(base['ns_rows'], run_['ns_rows'])))
        obl.append(('reward_equal_' + tag, base['reward'] == run_['reward']))
        obl.append(('done_equal_' + tag, base['done'] == run_['done']))
        obl.append(('limit_flag_equal_' + tag, base['lim'] == run_['lim']))
        obl.append(('step_counter_equal_' + tag, base['steps'] == run_['steps']))
        same_keys = set(base['info']) == set(run_['info'])
        obl.append(('info_equal_' + tag,
                    z3.And([base['info'][k] == run_['info'][k] for k in base['info']])
                    if same_keys else z3.BoolVal(False)))
    # observations: equal observability => equal cells (flattening is row-major), shapes as advertised
    by_fo = {}
    for run_ in r.runs:
        by_fo.setdefault(run_['mode'][0], []).append(run_)
        want = ((nh + 1) * size,) if run_['mode'][2] else (nh + 1, size)
        obl.append(('obs_shape_fo%d_fa%d_flat%d' % tuple(int(b) for b in run_['mode']),
                    z3.BoolVal(run_['obs_shape'] == want)))
    eq = lambda a, b: z3.And([sx._coerce(x, y)[0] == sx._coerce(x, y)[1] for x, y in zip(a, b)]) \
        if len(a) == len(b) else z3.BoolVal(False)
    for fo, rs in by_fo.items():
        for run_ in rs[1:]:
            obl.append(('obs_equal_up_to_flattening_fo%d_fa%d_flat%d' % tuple(int(b) for b in run_['mode']),
                        eq(rs[0]['obs_cells'], run_['obs_cells'])))
    full, part = by_fo[True][0]['obs_cells'], by_fo[False][0]['obs_cells']
    mask = []
    for j, (f, p) in enumerate(zip(full, part)):
        f, p = sx._coerce(f, p)
        if j >= nh * size:
            mask.append(f == p)
        else:
            mask.append(z3.Or(p == 0, p == f))
    obl.append(('partial_obs_is_masked_full_obs', z3.And(mask)))
    return obl


witnesses = common.outcome_witnesses


def describe(r):
    m = lambda t: str(z3.simplify(t))
    return dict(action=r.A.kind, target=list(r.A.target),
                runs=[dict(mode=x['mode'], reward=m(x['reward']), done=m(x['done']), lim=m(x['lim']),
                           status=[[m(c) for c in row] for row in x['ns_rows']]) for x in r.runs])
