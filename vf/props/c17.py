"""C17 -- a loaded YAML scenario means exactly what the file says.

The real ScenarioLoader.load (every _parse_* / _validate_*) runs on a document skeleton whose
leaves are solver variables: all numbers (probabilities in [0,1], costs > 0, scan costs >= 0,
sensitive values > 0, host values of any sign, step limit > 0 or absent; as YAML ints or floats),
name choices (exploit service / OS / `none` spelling, access as user|root|1|2, host OS), membership
bits (host services / processes, one subnet firewall rule, one host firewall), presence of optional
keys.  Every such document is in the documented format, so every path must end without an
exception (acceptance) and the returned Scenario must reproduce the document: subnets, topology,
per-host OS / services / processes / value, subnet firewall allow-lists, per-host deny lists
(through Host.traffic_permitted on address tuples), sensitive hosts and values, exploit and
escalation definitions (access normalised, `none` -> None), scan costs, step limit.  The nine
shipped files are loaded with their numeric leaves replaced by solver variables.
"""
import z3

from .. import symex as sx
from .. import loaderh, dyn, loaded

ID = "C17"
TECHNIQUE = "symbolic execution of the real ScenarioLoader.load on documents with solver-variable leaves (numbers, name choices, membership and presence bits); acceptance and field-by-field fidelity decided by z3; replay through a real YAML file"
needs_reach = False
EXTRA_STUBS = loaderh.EXTRA_STUBS + dyn.EXTRA_STUBS
REQUIRED_WITNESSES = ['accepted', 'skeleton_A', 'skeleton_B', 'skeleton_C', 'shipped', 'no_step_limit', 'empty_privescs']
STUBS = ["nasim.scenarios.utils.load_yaml -> returns the harness' document (PyYAML is used again in the replay, which goes through a real file)",
         "int/float/bool/isinstance/type/min/max/math.isclose -> virtual builtins that keep proxies symbolic"]
ASSUMPTIONS = ["validity predicate = the documented YAML format (docs/source/tutorials/creating_scenarios.rst)",
               "document structure bounded by the two skeletons (tiny-like: 3 subnets of 1 host, 1 service/OS/process; and 2 subnets [2,1], 2 services, 2 OS, 2 processes, 2 exploits, 0/1 escalations) and by the nine shipped files"]
BOUNDS = dict(quick="skeletons A and B x YAML ints / floats x symbolic groups {numbers + exploit picks, numbers + escalation picks, numbers + host config, numbers + host firewall, numbers + subnet rule + host value + step limit}; nine shipped files with symbolic numbers",
              thorough="same plus both exploits' picks symbolic together")


def queries(tier, seed=0):
    qs = []
    groups = [dict(sym=['nums'], picks=['e_ssh']), dict(sym=['nums'], picks=['pe_tomcat']),
              dict(sym=['nums', 'cfg']), dict(sym=['nums', 'hostfw']),
              dict(sym=['nums', 'fw', 'hostvalue', 'limit'], sens_value_in_cfg=True)]
    for sk in ('A', 'B'):
        for nt in ('float', 'int'):
            for g in groups:
                qs.append(dict(kind='skel', skel=sk, numtype=nt, **g))
        qs.append(dict(kind='skel', skel=sk, numtype='float', sym=['nums'], picks=['e_ftp'] if sk == 'B' else []))
    qs.append(dict(kind='skel', skel='B', numtype='float', sym=['nums'], picks=[], privescs=0))
    qs.append(dict(kind='skel', skel='C', numtype='float', sym=['nums', 'hostvalue'], picks=[]))
    for sk in ('A', 'B'):
        qs.append(dict(kind='skel', skel=sk, numtype='float', sym=['nums', 'cfg', 'hostvalue'], host_order='reversed'))
        qs.append(dict(kind='skel', skel=sk, numtype='float', sym=['nums', 'limit'], first='A'))
    if tier != 'quick':
        qs.append(dict(kind='skel', skel='B', numtype='float', sym=['nums'], picks=['e_ssh', 'e_ftp']))
    from nasim.scenarios.benchmark import AVAIL_STATIC_BENCHMARKS
    for name in AVAIL_STATIC_BENCHMARKS:
        qs.append(dict(kind='shipped', file=name))
    return qs + loaded.queries()


def run(src, q):
    if q.get('loaded'):
        return loaded.run(src, q)
    r = dyn.Rec()
    r.q = q
    if q.get('first'):
        # an earlier load in the same process (no state reset in between) must not matter
        d0, _e0 = loaderh.skeleton(src, dict(kind='skel', skel=q['first'], numtype='float', sym=[], picks=[]))
        loaderh.load(src, d0)
    if q['kind'] == 'skel':
        doc, exp = loaderh.skeleton(src, q)
    else:
        doc, exp = loaderh.shipped(src, q)
    r.exp = exp
    r.sc = loaderh.load(src, doc)
    # "the environment built from it enforces every rule written in the file": the actions the
    # environment will offer carry the file's definitions
    import nasim.envs.action as m_act
    from .. import stubs
    with stubs.sut():
        r.actions = m_act.load_action_list(r.sc)
        psp = m_act.ParameterisedActionSpace(r.sc)
        r.param_scans = {k: psp.get_action([ti, 0, 0, 0, 0, 0]) for k, ti in
                         (('service', 2), ('os', 3), ('subnet', 4), ('process', 5))}
    return r


def obligations(r):
    if r.q.get('loaded'):
        return loaded.obligations(r)
    obl = loaderh.scenario_obligations(r.sc, r.exp)
    exp = r.exp
    acts = r.actions
    for nm, d in exp['exploits'].items():
        mine = [a for a in acts if a.is_exploit() and a.name == nm]
        ok = [z3.BoolVal(len(mine) == len(exp['addrs']))]
        for a in mine:
            ok += [z3.BoolVal(a.service == d['service'] and a.os == d['os']), loaderh._eqv(a.prob, d['prob']),
                   loaderh._eqv(a.cost, d['cost']), loaderh._eqv(a.access, d['access'])]
        obl.append(('environment_actions_of_exploit_%s' % nm, z3.And(ok)))
    for nm, d in exp['privescs'].items():
        mine = [a for a in acts if a.is_privilege_escalation() and a.name == nm]
        ok = [z3.BoolVal(len(mine) == len(exp['addrs']))]
        for a in mine:
            ok += [z3.BoolVal(a.process == d['process'] and a.os == d['os']), loaderh._eqv(a.prob, d['prob']),
                   loaderh._eqv(a.cost, d['cost']), loaderh._eqv(a.access, d['access'])]
        obl.append(('environment_actions_of_escalation_%s' % nm, z3.And(ok)))
    scans = dict(service='is_service_scan', os='is_os_scan', subnet='is_subnet_scan', process='is_process_scan')
    for short, pred in scans.items():
        mine = [a for a in acts if getattr(a, pred)()]
        obl.append(('environment_%s_scans' % short, z3.And([z3.BoolVal(len(mine) == len(exp['addrs']))] +
                                                           [loaderh._eqv(a.cost, exp['scan'][short]) for a in mine])))
    for short, a in r.param_scans.items():
        obl.append(('environment_%s_scan_cost_by_parameter_vector' % short, loaderh._eqv(a.cost, exp['scan'][short])))
    return obl


def witnesses(r):
    if r.q.get('loaded'):
        return ['accepted', 'loaded_dynamics']
    out = ['accepted']
    q = r.q
    out.append('shipped' if q['kind'] == 'shipped' else 'skeleton_' + q['skel'])
    if r.exp['limit'] is None:
        out.append('no_step_limit')
    if not r.exp['privescs']:
        out.append('empty_privescs')
    return out


def describe(r):
    if r.q.get('loaded'):
        from . import common
        return common.describe(r)
    return dict(note="scenario returned by the loader differs from the document")
