"""C06 -- termination and step-limit signals are exact.

(1) real NASimEnv.generative_step: done <=> every sensitive host has ROOT in the returned state,
for every non-empty sensitive subset of the shape; goal_reached(x) gives the same answer for an
arbitrary state x and for None (= current state).
(2) real NASimEnv.step with a symbolic step counter (any int >= 0) and a symbolic step limit (None
or any int > 0): flag <=> limit is not None and steps + 1 >= limit; steps' = steps + 1;
generative_step leaves the counter untouched (reset zeroes it: C04).  Together an inductive
characterisation of "number of step() calls since the last reset".
"""
import itertools

import z3

from .. import symex as sx
from .. import dyn
from ..scen import Shape
from . import common

ID = "C06"
TECHNIQUE = "symbolic execution of the real generative_step/step/goal_reached by z3 proxy values; step counter and step limit as unbounded solver integers; all sensitive subsets of the shape"
needs_reach = True
EXTRA_STUBS = dyn.EXTRA_STUBS
REQUIRED_WITNESSES = ['done', 'not_done', 'limit_reached', 'limit_not_reached', 'no_limit']
STUBS, ASSUMPTIONS = common.STUBS, common.ASSUMPTIONS
BOUNDS = dict(quick="shapes [1,1],[2,1],[1,1,1]; every non-empty sensitive subset (termination queries with S=O=P=1 and no host firewalls); actions: exploit / escalation on first and last host, no-op; steps any int >= 0, limit None or any int > 0",
              thorough="adds [1,2],[2,1,1], P=2, every target and name")
describe = common.describe
prefer = common.prefer


def queries(tier, seed=0):
    qs = []
    base = dyn.base_queries(tier, level='gen', kinds=('exploit', 'privesc', 'noop'))
    # termination: one query per sensitive subset; keep OS=None variants only for quick
    for q in base:
        if tier == 'quick' and (q.get('os') is not None or
                                (q['kind'] == 'privesc' and q['target'] != [1, 0])):
            continue
        sh = Shape.from_json(q['shape'])
        addrs = sh.addrs
        if tier != 'quick' and (q.get('os') not in (None, 'o0') or (q.get('name') or 's0')[1:] != '0'):
            continue        # the goal test does not look at names: one name / OS variant per kind
        for k in range(1, len(addrs) + 1):
            subs = list(itertools.combinations(addrs, k))
            if tier != 'quick' and len(addrs) >= 4:
                subs = [subs[0], subs[-1]]      # four hosts: first and last subset of each size
            for sub in subs:
                if tier == 'quick' and q['kind'] == 'noop' and k != len(addrs):
                    continue
                d = dict(q)
                d['sens'] = [list(a) for a in sub]
                d['goal_query'] = True
                if tier == 'quick':
                    # the goal test does not look at firewalls or names: smallest name sets
                    d['host_fw'] = False
                    d['shape'] = dict(q['shape'], S=1, O=1)
                    if d.get('name') and d['name'].startswith('s'):
                        d['name'] = 's0'
                qs.append(d)
    # goal test after the (supposedly pure) hop / score-bound queries, two sensitive hosts sharing a subnet
    sh21 = Shape([2, 1], 1, 1, 1).to_json()
    for sens in ([[1, 0], [1, 1]], [[1, 0], [1, 1], [2, 0]]):
        for kind, nm, t in (('exploit', 's0', [1, 1]), ('privesc', 'p0', [1, 0])):
            qs.append(dict(shape=sh21, kind=kind, target=t, name=nm, os=None, level='gen', sens=sens,
                           goal_query=True, host_fw=False, bound_first=True))
    # step counter / limit
    small = Shape([1, 1], 2, 2, 1).to_json()
    shapes = [small] if tier == 'quick' else [small, Shape([2, 1], 2, 2, 1).to_json()]
    for sh in shapes:
        last = Shape.from_json(sh).addrs[-1]
        for lim in ('sym', 'none'):
            for level in ('step', 'gen'):
                for kind, name in (('noop', None), ('subnet_scan', None), ('exploit', 's1'), ('privesc', 'p0')):
                    qs.append(dict(shape=sh, kind=kind, target=[1, 0] if kind != 'exploit' else list(last),
                                   name=name, os=None, level=level, limit=lim, steps_sym=True,
                                   counter=True))
    return qs


run = dyn.run


def obligations(r):
    w, q = r.w, r.q
    obl = []
    if q.get('counter'):
        if q['level'] == 'step':
            obl.append(('step_increments_counter', r.steps1 == r.steps0 + 1))
            lim = sx.zbool(r.lim)
            if r.limit is None:
                obl.append(('no_limit_never_reports_limit', z3.Not(lim)))
            else:
                obl.append(('limit_flag_exact', lim == (r.steps0 + 1 >= sx.znum(r.limit))))
        else:
            obl.append(('generative_step_does_not_count', r.steps1 == r.steps0))
        return obl
    done = sx.zbool(r.done)
    goal_post = z3.And([r.post[a]['acc'] >= 2 for a in w.sens])
    goal_pre = z3.And([r.st[a]['acc'] >= 2 for a in w.sens])
    obl.append(('done_iff_root_on_all_sensitive_hosts', done == goal_post))
    obl.append(('goal_query_on_given_state', sx.zbool(r.goal_pre) == goal_pre))
    obl.append(('goal_query_on_current_state', sx.zbool(r.goal_cur) == goal_pre))
    return obl


def witnesses(r):
    q = r.q
    out = []
    if q.get('counter'):
        if q['level'] == 'step':
            if r.limit is None:
                out.append('no_limit')
            else:
                lim = sx.zbool(r.lim)
                if not sx.valid(z3.Not(lim))[0]:
                    out.append('limit_reached')
                if not sx.valid(lim)[0]:
                    out.append('limit_not_reached')
        return out
    ok, _ = sx.valid(sx.zbool(r.done))
    out.append('done' if ok else 'not_done')
    return out
