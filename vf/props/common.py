"""shared texts and helpers for the dynamic-harness properties"""
import z3

from .. import symex as sx

STUBS = ["np -> vf.npmodel array model (validated in lock-step against numpy on every run)",
         "int/float/bool/isinstance/min/max/type -> virtual builtins that keep proxies symbolic",
         "np.random.rand -> fresh real u in [0,1), draws counted",
         "gymnasium.spaces.Box -> record (low, high, shape, dtype) (real Box again in replays)"]
ASSUMPTIONS = ["V: documented scenario format (symmetric reflexive topology, >=1 public subnet, exactly one OS and >=1 service per host, exploit/escalation grants in {USER, ROOT}, 0 <= prob <= 1, cost >= 0)",
               "pre-state: any tensor satisfying the invariant Inv (proved inductive on the real code by the C03 check), so action histories of any length are covered",
               "values, discovery values and costs range over k/4 with |k| <= 400 (exact in float32); other reals are outside the claim",
               "scenarios larger than the stated shapes are outside the claim (small-scope hypothesis)",
               "every counterexample is replayed on the unmodified code with real numpy and its pre-state is shown reachable from reset() by breadth-first search before it is reported"]
BOUNDS = dict(quick="shapes [1,1],[2,1],[1,1,1] (subnet sizes without internet), S=2,O=2,P=1; targets first/last host; last service/process; OS None and last OS; req_access symbolic in {0,1,2}",
              thorough="shapes [1,1],[2,1],[1,2],[1,1,1] with P=2 and [2,1,1]; every target, service, process and OS name")


def outcome_witnesses(r):
    out = []
    succ = r.res['success']
    ok, _ = sx.valid(succ)
    if ok:
        out.append('success')
        out.append('success_' + r.A.kind)
    else:
        ok2, _ = sx.valid(z3.Not(succ))
        if ok2:
            out.append('failure')
            for k in ('conn', 'perm', 'undef'):
                okk, _ = sx.valid(r.res[k])
                if okk:
                    out.append('flag_' + k)
    out.append('draws_%d' % r.ndraws)
    return out


def rows_equal(rows_a, rows_b, cols=None):
    cs = []
    for ra, rb in zip(rows_a, rows_b):
        for j, (x, y) in enumerate(zip(ra, rb)):
            if cols is not None and j not in cols:
                continue
            x, y = sx._coerce(x, y)
            cs.append(x == y)
    return z3.And(cs) if cs else z3.BoolVal(True)


def describe(r):
    m = lambda t: str(z3.simplify(t))
    d = dict(action=r.A.kind, target=list(r.A.target), name=r.A.name, os=r.A.os,
             pre={str(a): {k: m(v) for k, v in dd.items()} for a, dd in r.st.items()},
             post={str(a): {k: m(v) for k, v in dd.items()} for a, dd in r.post.items()},
             result={k: m(v) for k, v in r.res.items()}, draws=r.ndraws)
    if getattr(r, 'reward', None) is not None:
        d['reward'] = m(sx.znum(r.reward))
        d['done'] = m(sx.zbool(r.done))
    return d


def prefer(r):
    """soft preferences for counterexamples: as few compromised hosts as possible, permissive
    firewalls, no host-firewall denies, dyadic probability / draw -- models that are easy to reach
    from reset() and replay exactly in floating point"""
    w = r.w
    prefs = []
    if getattr(r, 'step', None) is not None and r.step.p is not None and not z3.is_rational_value(r.step.p):
        p = r.step.p
        k = z3.Int('pref_pk')
        prefs.append(z3.And(p * 8 == z3.ToReal(k)))
        if r.step.u is not None and r.ndraws:
            j = z3.Int('pref_uk')
            prefs.append(r.step.u * 16 == z3.ToReal(j))
    for s_ in range(1, w.n):
        prefs.append(sx.znum(w.T[s_][0]) == 1)       # public subnets: compromised hosts are reachable from reset
    t = r.A.target if getattr(r, 'A', None) is not None else None
    st = getattr(r, 'st', None)
    if st is not None:
        for a in w.addrs:
            if a != t:
                prefs.append(st[a]['comp'] == 0)
        if t is not None:
            prefs.append(st[t]['comp'] == 0)
    for bits in w.FW.values():
        for b in bits.values():
            prefs.append(sx.zbool(b))
    for a in w.addrs:
        for g, bits in w.deny[a].items():
            for b in bits.values():
                prefs.append(z3.Not(sx.zbool(b)))
    for a in w.addrs:
        for b in w.srv[a].values():
            prefs.append(sx.zbool(b))
    return prefs
