"""C05 -- reward is value gained minus action cost and every value is paid once.

Real NASimEnv.generative_step on a symbolic scenario/state/action/draw.  reward == value* - cost
where value* is the declarative value of the step: the target's value iff this step first obtains
ROOT on it, the discovery values of exactly the hosts this subnet scan newly discovers, otherwise
0.  Failures pay -cost, a no-op 0.  "At most once per episode" follows: a host value is paid only
on a step with acc < ROOT and acc' = ROOT, a discovery value only with disc = 0 and disc' = 1, and
neither can recur because status is monotone (C04); both premises are obligations here.
"""
import z3

from .. import symex as sx
from .. import dyn, spec
from ..scen import tz
from . import common

ID = "C05"
TECHNIQUE = "symbolic execution of the real NASimEnv.generative_step by z3 proxy values; reward as an exact dyadic-rational term compared with the declarative value-minus-cost; counterexample replay"
needs_reach = True
EXTRA_STUBS = dyn.EXTRA_STUBS
REQUIRED_WITNESSES = ['success_exploit', 'success_privesc', 'success_subnet_scan', 'failure', 'value_gained', 'discovery_value_gained']
STUBS, ASSUMPTIONS, BOUNDS = common.STUBS, common.ASSUMPTIONS, common.BOUNDS
describe = common.describe
prefer = common.prefer


def queries(tier, seed=0):
    qs = dyn.base_queries(tier, level='gen')
    # the reward does not depend on the observation mode: repeat a slice fully observable / 2-D
    extra = []
    for q in qs:
        if q['shape']['sizes'] == [1, 1] and q.get('os') is None:
            d = dict(q)
            d['fully_obs'] = True
            d['flat_obs'] = False
            extra.append(d)
    # the cost the scenario defines must be charged whichever way the action is passed in:
    # by flat index and by parameter vector (decoded by the real action spaces)
    for q in qs:
        if q['shape']['sizes'] == [2, 1] and q.get('os') is None and q['kind'] != 'noop' \
           and q['target'] == [1, 0]:
            for dec in ('flat', 'param'):
                d = dict(q)
                d['decode'] = dec
                extra.append(d)
    return qs + extra


run = dyn.run


def obligations(r):
    w, A, st, post, step = r.w, r.A, r.st, r.post, r.step
    succ = r.res['success']
    t = A.target
    obl = []
    reward = spec.real(sx.znum(r.reward))
    cost = spec.real(sx.znum(A.cost))
    expv = step.expected_value(succ)
    obl.append(('reward_is_value_minus_cost', reward == expv - cost))
    obl.append(('failure_pays_cost_only', z3.Implies(z3.Not(succ), reward == -cost)))
    obl.append(('info_value_is_value_gained', r.res['value'] == expv))
    if A.kind == 'noop':
        obl.append(('noop_costs_nothing', reward == 0))
    if A.kind in ('exploit', 'privesc'):
        paid = r.res['value'] != 0
        obl.append(('host_value_only_when_root_first_obtained',
                    z3.Implies(paid, z3.And(st[t]['acc'] < 2, post[t]['acc'] == 2))))
    if A.kind == 'subnet_scan':
        # the discovery value counted is exactly that of hosts going from undiscovered to discovered
        tot = z3.RealVal(0)
        for a in w.addrs:
            newly = z3.And(st[a]['disc'] == 0, post[a]['disc'] == 1)
            tot = tot + z3.If(newly, spec.real(sx.znum(w.dval[a])), z3.RealVal(0))
        obl.append(('discovery_value_only_for_newly_discovered', r.res['value'] == tot))
    return obl


def witnesses(r):
    out = common.outcome_witnesses(r)
    ok, m = sx.valid(r.res['value'] == 0)
    if not ok:
        out.append('value_gained' if r.A.kind in ('exploit', 'privesc') else 'discovery_value_gained')
    return out
