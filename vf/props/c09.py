"""C09 -- state and observation vectors follow the documented layout.

(1) Index arithmetic for ALL sizes: HostVector._update_vector_idxs runs with the address-space
bounds and the numbers of OS / services / processes as unbounded positive solver integers; the
eleven block offsets must be the documented cumulative sums and state_size = A0+A1+6+O+S+P.
(2) Per shape of a grid (including custom, larger address-space bounds): the real
State.tensorize / generate_initial_state on a symbolic scenario; every row is decoded *by the
documented positions* (computed here from the shape, not taken from the code) and must reproduce
the host definition; rows are in scenario (host_num_map) order; numpy_flat is the row-major
flattening; State.from_numpy / Observation.from_numpy / get_readable give back the same cells and
names; the auxiliary row is the final row and carries success, connection, permission, undefined
in its first four entries; Scenario.get_state_dims / get_observation_dims agree with the tensors.
"""
import z3

from .. import symex as sx
from .. import scen, dyn, stubs, npmodel
from ..scen import Shape, public

import nasim.envs.host_vector as m_hv
import nasim.envs.state as m_state
import nasim.envs.network as m_net
import nasim.envs.observation as m_obs
import nasim.envs.action as m_act

ID = "C09"
TECHNIQUE = "symbolic execution of the real HostVector index arithmetic with unbounded integer sizes, and of tensorize/from_numpy/get_readable on symbolic host definitions, against the documented layout; z3 decides every cell"
needs_reach = False
EXTRA_STUBS = dyn.EXTRA_STUBS
REQUIRED_WITNESSES = ['index_arithmetic', 'layout', 'custom_bounds']
STUBS = ["np -> vf.npmodel array model (validated in lock-step against numpy on every run)",
         "int/float/bool/isinstance/min/max/type -> virtual builtins that keep proxies symbolic"]
ASSUMPTIONS = ["documented layout: subnet one-hot (A0 cells), host one-hot (A1 cells), compromised, reachable, discovered, value, discovery value, access, one flag per OS, service, process in scenario order; (A0, A1) = address_space_bounds, default (number of subnets incl. internet, largest subnet)",
               "index arithmetic: all positive integer sizes (unbounded); round-trips: the shape grid in the evidence"]
BOUNDS = dict(quick="index arithmetic: unbounded ints; layout grid: sizes [1,1],[2,1],[1,2,1] x (S,O,P) in {(1,1,1),(2,2,1),(3,2,2)} incl. custom bounds (+2,+3)",
              thorough="adds [3,1],[1,1,2,1] and (S,O,P)=(2,3,3), bounds (+0,+1),(+4,+0)")


def queries(tier, seed=0):
    qs = [dict(kind='idx')]
    sizes = [[1, 1], [2, 1], [1, 2, 1], [5, 1]] + ([[3, 1], [1, 1, 2, 1]] if tier != 'quick' else [])
    sop = [(1, 1, 1), (2, 2, 1), (3, 2, 2)] + ([(2, 3, 3)] if tier != 'quick' else [])
    extra = [None, (2, 3)] + ([(0, 1), (4, 0)] if tier != 'quick' else [])
    for sz in sizes:
        for (S, O, P) in sop:
            for ex in extra:
                b = None
                if ex is not None:
                    b = (len(sz) + 1 + ex[0], max(sz) + ex[1])
                qs.append(dict(kind='layout', shape=Shape(sz, S, O, P, b).to_json(),
                               host_order='reversed' if (len(sz) + S) % 2 else None))
    return qs


def run(src, q):
    r = dyn.Rec()
    r.q = q
    HV = m_hv.HostVector
    if q['kind'] == 'idx':
        A0, A1 = src.int('A0', 1, None), src.int('A1', 1, None)
        O, S, P = src.int('nO', 1, None), src.int('nS', 1, None), src.int('nP', 1, None)
        saved = {k: getattr(HV, k) for k in ('address_space_bounds', 'num_os', 'num_services',
                                              'num_processes')}
        r.sizes = [sx.znum(x) for x in (A0, A1, O, S, P)]
        try:
            HV.address_space_bounds = (A0, A1)
            HV.num_os, HV.num_services, HV.num_processes = O, S, P
            with stubs.sut():
                HV._update_vector_idxs()
            r.idx = {k: sx.znum(getattr(HV, k)) for k in (
                '_subnet_address_idx', '_host_address_idx', '_compromised_idx', '_reachable_idx',
                '_discovered_idx', '_value_idx', '_discovery_value_idx', '_access_idx',
                '_os_start_idx', '_service_start_idx', '_process_start_idx', 'state_size')}
            with stubs.sut():
                r.slices = dict(subnet=HV._subnet_address_idx_slice(), host=HV._host_address_idx_slice(),
                                os=HV._os_idx_slice(), srv=HV._service_idx_slice(),
                                prc=HV._process_idx_slice())
                k = src.int('k', 0, None)
                r.k = sx.znum(k)
                r.getidx = dict(os=sx.znum(HV._get_os_idx(k)), srv=sx.znum(HV._get_service_idx(k)),
                                prc=sx.znum(HV._get_process_idx(k)))
            r.aux = (m_obs.Observation._success_idx, m_obs.Observation._conn_error_idx,
                     m_obs.Observation._perm_error_idx, m_obs.Observation._undef_error_idx)
        finally:
            for k_, v in saved.items():
                setattr(HV, k_, v)
            HV.address_space_bounds = None
        return r
    shape = Shape.from_json(q['shape'])
    w = scen.build_world(src, shape, host_order=q.get('host_order'))
    r.w = w
    net = m_net.Network(w.scenario)
    with stubs.sut():
        state = m_state.State.generate_initial_state(net)
        r.rows = dyn.tensor_rows(state.tensor)
        r.tshape = tuple(state.tensor.shape)
        r.state_dims = tuple(w.scenario.get_state_dims())
        r.obs_dims = tuple(w.scenario.get_observation_dims())
        flat = state.numpy_flat()
        r.flat = [sx.znum(c) for c in (flat.cells() if isinstance(flat, npmodel.SArray) else flat)]
        r.flat_shape = tuple(flat.shape)
        back = m_state.State.from_numpy(flat, state.shape(), state.host_num_map)
        r.back_rows = dyn.tensor_rows(back.tensor)
        r.readable = state.get_readable()
        # observation: flags symbolic, host rows from the state
        flags = [src.bool('f_succ'), src.bool('f_conn'), src.bool('f_perm'), src.bool('f_undef')]
        r.flags = [sx.zbool(b) for b in flags]
        res = m_act.ActionResult(flags[0], 0.0, connection_error=flags[1], permission_error=flags[2],
                                 undefined_error=flags[3])
        obs = m_obs.Observation(state.shape())
        obs.from_state_and_action(state, res)
        r.obs_rows = dyn.tensor_rows(obs.tensor)
        r.obs_shape = tuple(obs.shape())
        oflat = obs.numpy_flat()
        r.oflat = [sx.znum(c) for c in (oflat.cells() if isinstance(oflat, npmodel.SArray) else oflat)]
        oback = m_obs.Observation.from_numpy(oflat, state.shape())
        r.oback_rows = dyn.tensor_rows(oback.tensor)
        r.oreadable = oback.get_readable()
        r.oprops = [sx.zbool(oback.success), sx.zbool(oback.connection_error),
                    sx.zbool(oback.permission_error), sx.zbool(oback.undefined_error)]
        # the auxiliary row of observations built by State.get_observation, for a no-op and for a
        # failed action, partially and fully observable
        r.aux_rows = []
        for act in (m_act.NoOp(), m_act.ServiceScan(w.addrs[0], cost=1)):
            for fo in (False, True):
                res2 = m_act.ActionResult(flags[0], 0.0, connection_error=flags[1], permission_error=flags[2],
                                          undefined_error=flags[3])
                o2 = state.get_observation(act, res2, fo)
                rows2 = dyn.tensor_rows(o2.tensor)
                r.aux_rows.append(rows2[len(rows2) - 1])
        # masked host rows: each feature group of HostVector.observe() lands in its documented block
        hv0 = state.get_host(w.addrs[0])
        r.masked = {}
        for flag in ('address', 'compromised', 'reachable', 'discovered', 'access', 'value',
                     'discovery_value', 'services', 'processes', 'os'):
            o_ = hv0.observe(**{flag: True})
            r.masked[flag] = [sx.znum(c) for c in (o_.cells() if isinstance(o_, npmodel.SArray) else o_)]
    return r


def doc_layout(w):
    b = w.shape.bounds or (len(w.shape.subnets), max(w.shape.subnets))
    A0, A1 = b
    base = A0 + A1
    return dict(A0=A0, A1=A1, comp=base, reach=base + 1, disc=base + 2, value=base + 3,
                dvalue=base + 4, acc=base + 5, os=base + 6, srv=base + 6 + w.shape.O,
                prc=base + 6 + w.shape.O + w.shape.S,
                size=base + 6 + w.shape.O + w.shape.S + w.shape.P)


def _eq(a, b):
    a, b = sx._coerce(sx.znum(a), sx.znum(b))
    return a == b


def obligations(r):
    q = r.q
    obl = []
    if q['kind'] == 'idx':
        A0, A1, O, S, P = r.sizes
        i = r.idx
        base = A0 + A1
        want = dict(_subnet_address_idx=z3.IntVal(0), _host_address_idx=A0, _compromised_idx=base,
                    _reachable_idx=base + 1, _discovered_idx=base + 2, _value_idx=base + 3,
                    _discovery_value_idx=base + 4, _access_idx=base + 5, _os_start_idx=base + 6,
                    _service_start_idx=base + 6 + O, _process_start_idx=base + 6 + O + S,
                    state_size=base + 6 + O + S + P)
        for k, v in want.items():
            obl.append(('offset' + k, i[k] == v))
        sl = r.slices
        ends = dict(subnet=(z3.IntVal(0), A0), host=(A0, base), os=(base + 6, base + 6 + O),
                    srv=(base + 6 + O, base + 6 + O + S), prc=(base + 6 + O + S, base + 6 + O + S + P))
        for k, (lo, hi) in ends.items():
            ok = z3.And(sx.znum(sl[k].start) == lo, sx.znum(sl[k].stop) == hi) if sl[k].step is None \
                else z3.BoolVal(False)
            obl.append(('slice_' + k, ok))
        obl.append(('get_os_idx', r.getidx['os'] == base + 6 + r.k))
        obl.append(('get_service_idx', r.getidx['srv'] == base + 6 + O + r.k))
        obl.append(('get_process_idx', r.getidx['prc'] == base + 6 + O + S + r.k))
        obl.append(('aux_indices', z3.BoolVal(tuple(r.aux) == (0, 1, 2, 3))))
        return obl
    w = r.w
    L = doc_layout(w)
    nh = len(w.addrs)
    obl.append(('tensor_shape', z3.BoolVal(r.tshape == (nh, L['size']))))
    obl.append(('scenario_state_dims', z3.BoolVal(r.state_dims == (nh, L['size']))))
    obl.append(('scenario_observation_dims', z3.BoolVal(r.obs_dims == (nh + 1, L['size']))))
    obl.append(('observation_shape', z3.BoolVal(r.obs_shape == (nh + 1, L['size']))))
    if r.tshape != (nh, L['size']):
        return obl
    order = list(w.scenario.hosts.keys())
    for i, a in enumerate(order):
        row = r.rows[i]
        cs = []
        for j in range(L['A0']):
            cs.append(row[j] == (1 if j == a[0] else 0))
        for j in range(L['A1']):
            cs.append(row[L['A0'] + j] == (1 if j == a[1] else 0))
        pub = public(w, a[0])
        cs += [row[L['comp']] == 0, row[L['acc']] == 0,
               row[L['reach']] == z3.If(pub, 1, 0), row[L['disc']] == z3.If(pub, 1, 0)]
        cs.append(_eq(row[L['value']], w.val[a]))
        cs.append(_eq(row[L['dvalue']], w.dval[a]))
        for k, o in enumerate(w.oss):
            cs.append(row[L['os'] + k] == z3.If(sx.zbool(w.os[a][o]), 1, 0))
        for k, s in enumerate(w.services):
            cs.append(row[L['srv'] + k] == z3.If(sx.zbool(w.srv[a][s]), 1, 0))
        for k, p in enumerate(w.procs):
            cs.append(row[L['prc'] + k] == z3.If(sx.zbool(w.prc[a][p]), 1, 0))
        obl.append(('row_%d_decodes_to_host_%d_%d' % (i, a[0], a[1]), z3.And(cs)))
        # readable decoders
        rd = r.readable[i]
        rcs = [z3.BoolVal(tuple(int(x) for x in rd['Address']) == a),
               sx.zbool(rd['Compromised']) == z3.BoolVal(False),
               sx.zbool(rd['Reachable']) == pub, sx.zbool(rd['Discovered']) == pub,
               _eq(rd['Value'], w.val[a]), _eq(rd['Discovery Value'], w.dval[a]), _eq(rd['Access'], 0)]
        for o in w.oss:
            rcs.append(sx.zbool(rd[o]) == sx.zbool(w.os[a][o]))
        for s in w.services:
            rcs.append(sx.zbool(rd[s]) == sx.zbool(w.srv[a][s]))
        for p in w.procs:
            rcs.append(sx.zbool(rd[p]) == sx.zbool(w.prc[a][p]))
        obl.append(('readable_row_%d' % i, z3.And(rcs)))
        ord_ = r.oreadable[0][i]
        obl.append(('obs_readable_row_%d' % i, z3.And(
            z3.BoolVal(tuple(int(x) for x in ord_['Address']) == a),
            _eq(ord_['Value'], w.val[a]),
            *[sx.zbool(ord_[s]) == sx.zbool(w.srv[a][s]) for s in w.services])))
    row0 = r.rows[w.scenario.host_num_map[w.addrs[0]]]
    blocks = dict(address=list(range(0, L['A0'] + L['A1'])), compromised=[L['comp']], reachable=[L['reach']],
                  discovered=[L['disc']], access=[L['acc']], value=[L['value']], discovery_value=[L['dvalue']],
                  os=list(range(L['os'], L['os'] + w.shape.O)), services=list(range(L['srv'], L['srv'] + w.shape.S)),
                  processes=list(range(L['prc'], L['prc'] + w.shape.P)))
    for flag, cells in r.masked.items():
        ok = [(_eq(c, row0[j]) if j in blocks[flag] else c == 0) for j, c in enumerate(cells)] \
            if len(cells) == L['size'] else [z3.BoolVal(False)]
        obl.append(('observe_%s_fills_its_documented_block_only' % flag, z3.And(ok)))
    flat_rows = [c for row in r.rows for c in row]
    obl.append(('numpy_flat_is_row_major', z3.And([_eq(x, y) for x, y in zip(r.flat, flat_rows)])
                if len(r.flat) == len(flat_rows) and r.flat_shape == (nh * L['size'],) else z3.BoolVal(False)))
    from .common import rows_equal
    obl.append(('state_from_numpy_roundtrip', rows_equal(r.rows, r.back_rows)))
    # observation: host rows then the auxiliary row
    obl.append(('obs_host_rows_are_state_rows', rows_equal(r.rows, r.obs_rows[:nh])))
    aux = r.obs_rows[nh]
    b2i = lambda b: z3.If(b, 1, 0)
    obl.append(('aux_row_is_last_and_first_four_are_flags',
                z3.And([aux[k] == b2i(r.flags[k]) for k in range(4)] + [aux[j] == 0 for j in range(4, L['size'])])))
    for k_, aux2 in enumerate(r.aux_rows):
        obl.append(('get_observation_aux_row_%d' % k_,
                    z3.And([aux2[k] == b2i(r.flags[k]) for k in range(4)] + [aux2[j] == 0 for j in range(4, L['size'])])
                    if len(aux2) == L['size'] else z3.BoolVal(False)))
    oflat_rows = [c for row in r.obs_rows for c in row]
    obl.append(('obs_flat_is_row_major', z3.And([_eq(x, y) for x, y in zip(r.oflat, oflat_rows)])
                if len(r.oflat) == len(oflat_rows) else z3.BoolVal(False)))
    obl.append(('obs_from_numpy_roundtrip', rows_equal(r.obs_rows, r.oback_rows)))
    obl.append(('obs_flag_properties', z3.And([r.oprops[k] == r.flags[k] for k in range(4)])))
    aux_rd = r.oreadable[1]
    obl.append(('obs_readable_aux', z3.And(sx.zbool(aux_rd['Success']) == r.flags[0],
                                           sx.zbool(aux_rd['Connection Error']) == r.flags[1],
                                           sx.zbool(aux_rd['Permission Error']) == r.flags[2],
                                           sx.zbool(aux_rd['Undefined Error']) == r.flags[3])))
    return obl


def witnesses(r):
    if r.q['kind'] == 'idx':
        return ['index_arithmetic']
    return ['layout'] + (['custom_bounds'] if r.w.shape.bounds else [])


def describe(r):
    if r.q['kind'] == 'idx':
        return {k: str(z3.simplify(v)) for k, v in r.idx.items()}
    return dict(rows=[[str(z3.simplify(c)) for c in row] for row in r.rows], doc_layout=doc_layout(r.w))
