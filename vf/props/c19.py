"""C19 -- environment instances are independent of each other.

Relational: out_alone = environment A (symbolic scenario) constructed, reset, put into a symbolic
Inv-state, stepped with a symbolic action and draw, its state and observation decoded by the
readable decoders -- while no other environment exists.  out_interleaved = the same A (same solver
variables) with the operations of a second environment B (construct / reset / step) inserted at
every position of the schedule.  B ranges over: the identical scenario object, the same layout
with different content, the same sizes with different OS / service / process names, different
sizes.  Obligation: every output of A is equal in both runs; an exception on one side only is a
violation.  Vector layouts that differ between A and B are the recorded known finding (the layout
lives in class attributes of HostVector); the equal-layout region must hold.
"""
import itertools

import z3

from .. import symex as sx
from .. import scen, spec, dyn, stubs, npmodel
from ..scen import Shape
from . import common
from .c13 import info_terms

import nasim.envs.environment as m_env
import nasim.scenarios as m_scenarios

ID = "C19"
TECHNIQUE = "relational symbolic execution of the real NASimEnv: environment A on shared z3 inputs run alone and with a second environment's construct/reset/step interleaved at every schedule position; outputs compared by the solver; counterexample replay on real numpy"
needs_reach = True
EXTRA_STUBS = dyn.EXTRA_STUBS
GROUP_BY_QUERY = True
REQUIRED_WITNESSES = ['same_object', 'same_layout', 'success', 'failure', 'bench_params']
STUBS, ASSUMPTIONS = common.STUBS, common.ASSUMPTIONS
BOUNDS = dict(quick="A: shape [2,1], S=2,O=2,P=1; actions exploit / subnet scan / escalation on the first host (by flat index; exploit and escalation also by parameter vector with parameterised spaces on both sides); B variants: same object, same layout other content, other names, other sizes; B's construct / reset / step inserted before each of A's construct / reset / step / decode",
              thorough="adds A shape [1,1,1] and every action kind")
def prefer(r):
    return common.prefer(r) if getattr(r, 'w', None) is not None and getattr(r, 'A', None) is not None else []
A_OPS = ('construct', 'state', 'step', 'decode')
VARIANTS = ('object', 'content', 'names', 'sizes')


def queries(tier, seed=0):
    qs = []
    shapes = [Shape([2, 1], 2, 2, 1)] + ([Shape([1, 1, 1], 2, 2, 1)] if tier != 'quick' else [])
    kinds = [('exploit', 's1'), ('subnet_scan', None), ('privesc', 'p0')]
    if tier != 'quick':
        kinds += [('process_scan', None), ('service_scan', None), ('os_scan', None)]
    for sh in shapes:
        for kind, nm in kinds:
            for var in VARIANTS:
                for pos in range(len(A_OPS)):
                    if tier == 'quick' and kind != 'exploit' and pos not in (1, 2):
                        continue
                    qs.append(dict(shape=sh.to_json(), kind=kind, name=nm, os=None, target=[1, 0],
                                   b_variant=var, b_pos=pos))
    # the same with parameterised action spaces on both sides
    for sh in shapes[:1]:
        for kind, nm in (('exploit', 's1'), ('privesc', 'p0')):
            for var in ('object', 'content'):
                for pos in (0, 2):
                    qs.append(dict(shape=sh.to_json(), kind=kind, name=nm, os=None, target=[1, 0],
                                   b_variant=var, b_pos=pos, param=True))
    for pos in (0, 2):
        qs.append(dict(shape=shapes[0].to_json(), kind='exploit', name='s1', os=None, target=[1, 0],
                       b_variant='content', b_pos=pos, twin=True))
    for name in ('tiny-gen', 'small-gen'):
        qs.append(dict(kind='bench_params', name=name, no_reach=True))
    return qs


B_MODEL = {'top_0_1': True, 'top_0_2': True, 'top_1_2': True, 'top_0_3': False, 'top_1_3': True,
           'top_2_3': True}


def make_b(w, q):
    """scenario for the second environment"""
    var = q['b_variant']
    if var == 'object':
        return w.scenario
    shape = Shape.from_json(q['shape'])
    if var == 'sizes':
        shape = Shape(list(shape.sizes) + [2], shape.S + 1, shape.O, shape.P + 1)
    model = dict(B_MODEL)
    tag = 'x' if var == 'names' else ''
    for a in shape.addrs:
        nm = "h%d%d" % a
        model["%s_os_%so0" % (nm, tag)] = True
        for i in range(shape.S):
            model["%s_srv_%ss%d" % (nm, tag, i)] = True
        for i in range(shape.P):
            model["%s_prc_%sp%d" % (nm, tag, i)] = (i == 0)
        model["%s_val_x4" % nm] = 12
        model["%s_dval_x4" % nm] = 4
    for i in range(len(shape.subnets)):
        for j in range(len(shape.subnets)):
            for k in range(shape.S):
                model["fw_%d_%d_%ss%d" % (i, j, tag, k)] = True
    import nasim.scenarios.utils as u
    # B has one exploit per service (as many definitions as A when A's action is an exploit:
    # one) - named so that the first one takes the place of A's
    exploits = {}
    for i in range(shape.S):
        exploits['eb%d' % i] = {u.EXPLOIT_SERVICE: "%ss%d" % (tag, shape.S - 1 - i), u.EXPLOIT_OS: None,
                                u.EXPLOIT_PROB: 1.0, u.EXPLOIT_COST: 1, u.EXPLOIT_ACCESS: 2}
    if q['kind'] == 'exploit' and var == 'content':
        exploits = {'eb0': exploits['eb0']}          # same action count as A: same cache keys
    if q.get('twin'):
        # an exploit with A's name, service and target whose cost / probability agree with A's to
        # two decimals only
        exploits = {'e_x': {u.EXPLOIT_SERVICE: q['name'], u.EXPLOIT_OS: None, u.EXPLOIT_PROB: 0.33,
                            u.EXPLOIT_COST: 0.1, u.EXPLOIT_ACCESS: 2}}
    wb = scen.build_world(scen.ConcSource(model), shape, name_tag=tag, exploits=exploits)
    return wb.scenario


def b_ops(scenario, full=True, param=False):
    """construct / reset / step of the second environment (its draws are its own)"""
    envb = m_env.NASimEnv(scenario, fully_obs=False, flat_obs=False, flat_actions=not param)
    envb.reset()
    acts = [a for a in envb.action_space.actions if a.is_exploit()] or list(envb.action_space.actions)
    saved = npmodel.random
    import numpy as _np
    orig = _np.random.rand
    try:
        class _One:
            def rand(self_):
                return 0.0
        npmodel.random = _One()
        _np.random.rand = lambda *a: 0.0
        if full:
            for a_ in acts:                   # every exploit on every host, then a subnet scan
                envb.step(a_)
            envb.step(envb.action_space.actions[2])
            for a_ in acts[:4]:
                envb.step(a_)
        else:
            envb.step(acts[0])
            envb.step(envb.action_space.actions[2])
    finally:
        npmodel.random = saved
        _np.random.rand = orig
    return envb


def run_a(src, q, w, A, scripted, before=None, param=False):
    """the schedule of environment A; `before[i]` is executed before A's i-th operation"""
    out = {}
    hook = (lambda i: before(i)) if before else (lambda i: None)
    hook(0)
    env = m_env.NASimEnv(w.scenario, fully_obs=False, flat_obs=not param, flat_actions=not param)
    o0, _ = env.reset()
    out['reset_obs'] = [sx.znum(c) for c in (o0.cells() if isinstance(o0, npmodel.SArray) else o0.flatten())]
    hook(1)
    pre = scen.symbolic_state(w, env.current_state)
    hook(2)
    stubs.rewind_draws(scripted)
    o, reward, done, lim, info = env.step(dyn.encode(env, w, A, not param))
    out['obs'] = [sx.znum(c) for c in (o.cells() if isinstance(o, npmodel.SArray) else o.flatten())]
    out['reward'] = spec.real(sx.znum(reward))
    out['done'] = sx.zbool(done)
    out['info'] = info_terms(info)
    out['ns'] = dyn.tensor_rows(env.current_state.tensor)
    hook(3)
    rd = env.current_state.get_readable()
    ord_, aux = env.last_obs.get_readable()
    flat = {}
    for i, d in enumerate(rd):
        for k, v in d.items():
            if k == 'Address':
                flat['state[%d].Address' % i] = z3.IntVal(int(v[0]) * 100 + int(v[1]))
            else:
                flat['state[%d].%s' % (i, k)] = spec.real(sx.znum(v)) if not isinstance(v, (bool, sx.SymBool)) else z3.If(sx.zbool(v), z3.RealVal(1), z3.RealVal(0))
    for i, d in enumerate(ord_):
        for k, v in d.items():
            if k != 'Address':
                flat['obs[%d].%s' % (i, k)] = spec.real(sx.znum(v)) if not isinstance(v, (bool, sx.SymBool)) else z3.If(sx.zbool(v), z3.RealVal(1), z3.RealVal(0))
    for k, v in aux.items():
        flat['aux.%s' % k] = z3.If(sx.zbool(v), z3.RealVal(1), z3.RealVal(0))
    out['readable'] = flat
    # what A handed out earlier must still read the same after everything else happened
    cells_ = lambda x: [sx.znum(c) for c in (x.cells() if isinstance(x, npmodel.SArray) else x.flatten())]
    out['late_returned_obs'] = cells_(o)
    out['late_last_obs'] = cells_(env.last_obs.tensor)
    out['late_reset_obs'] = cells_(o0)
    return out, pre, env


def run(src, q):
    shape = Shape.from_json(q['shape']) if 'shape' in q else None
    if q['kind'] == 'bench_params':
        return run_bench(src, q)
    costs = dyn.symbolic_scan_costs(src)
    w = scen.build_world(src, shape, scan_costs=costs)
    sc_cost = costs[q['kind'][:-5]] if q['kind'].endswith('_scan') else None
    if q.get('twin'):
        # concrete cost / probability with more than two decimals (B has the 2-decimal neighbours)
        A = scen.make_action(w, q['kind'], tuple(q['target']), q.get('name'), q.get('os'), req_symbolic=False,
                             cost=0.104, prob=0.3333333333333333, grant=2)
    else:
        A = scen.make_action(w, q['kind'], tuple(q['target']), q.get('name'), q.get('os'), req_symbolic=False, cost=sc_cost)
    dyn.scenario_actions(w, A)
    r = dyn.Rec()
    r.q, r.w, r.A = q, w, A
    draws = []
    if not src.symbolic:
        i = 0
        while ("u%d" % i) in src.m:
            draws.append(src.real("u%d" % i))
            i += 1
    scripted = stubs.ScriptedRand(draws, default=0.0)
    with scripted:
        with stubs.sut():
            alone, pre, env_a = run_a(src, q, w, A, scripted, param=q.get('param', False))
        r.pre = pre
        r.st = scen.zstatus(pre)
        if src.symbolic:
            # Inv is assumed after the fact: it constrains the same variables for both runs
            sx.assume(scen.inv(w, r.st))
            sx.check_feasible()
        r.alone = alone
        r.res = dict(success=alone['info']['success'] == 1, conn=alone['info']['connection_error'] == 1,
                     perm=alone['info']['permission_error'] == 1, undef=alone['info']['undefined_error'] == 1,
                     value=alone['info']['value'])
        r.post = None
        r.ndraws = len(sx.cur().draws) if src.symbolic else scripted.calls
        # the interleaved run starts from the same process-wide state as the run alone did
        from .. import hidden
        hidden.restore()
        scb = make_b(w, q)
        pos = q['b_pos']
        state = {}

        def before(i):
            if i == pos:
                state['b'] = b_ops(scb, full=(q['b_variant'] != 'object'), param=q.get('param', False))
        r.inter_exc = None
        try:
            with stubs.sut():
                inter, _pre2, env_a2 = run_a(src, q, w, A, scripted, before=before, param=q.get('param', False))
            r.inter = inter
        except stubs.SutException as e:
            r.inter_exc = e.exc
            r.inter = None
    return r


def run_bench(src, q):
    """make_benchmark_scenario with a symbolic seed: building a generated benchmark must not leave
    anything behind in the module-level parameter dictionaries that a later build depends on"""
    import copy
    import nasim.scenarios as m_sc
    from nasim.scenarios.benchmark import AVAIL_GEN_BENCHMARKS
    r = dyn.Rec()
    r.q = q
    name = q['name']
    calls = []

    def recorder(*a, **kw):
        calls.append((a, dict(kw)))
        return ('scenario', len(calls))
    saved_fn = m_sc.generate_scenario
    saved_params = copy.deepcopy(AVAIL_GEN_BENCHMARKS[name])
    seed = src.int('bench_seed', 0, None)
    import numpy as _np
    seeds_seen = []
    saved_seed = _np.random.seed
    _np.random.seed = lambda *a, **k: seeds_seen.append((a, k))
    try:
        with stubs.sut():
            m_sc.make_benchmark_scenario('tiny', seed=None)        # a static benchmark, unseeded
    finally:
        _np.random.seed = saved_seed
    r.static_reseeds = list(seeds_seen)
    try:
        m_sc.generate_scenario = recorder
        with stubs.sut():
            m_sc.make_benchmark_scenario(name, seed=None)          # alone
            m_sc.make_benchmark_scenario(name, seed=seed)          # another environment, seeded
            m_sc.make_benchmark_scenario(name, seed=None)          # the same request as the first
            m_sc.make_benchmark_scenario(name, seed=seed)
    finally:
        m_sc.generate_scenario = saved_fn
        AVAIL_GEN_BENCHMARKS[name].clear()
        AVAIL_GEN_BENCHMARKS[name].update(saved_params)
    r.calls = calls
    r.seed = seed
    r.registered = saved_params
    return r


def _kw_equal(a, b):
    if set(a) != set(b):
        return z3.BoolVal(False)
    cs = []
    for k in a:
        x, y = a[k], b[k]
        if x is None or y is None:
            cs.append(z3.BoolVal(x is None and y is None))
        elif sx.is_sym(x) or sx.is_sym(y):
            cs.append(sx.znum(x) == sx.znum(y))
        else:
            cs.append(z3.BoolVal(x == y))
    return z3.And(cs)


def obligations(r):
    if r.q['kind'] == 'bench_params':
        c = r.calls
        if len(c) != 4:
            return [('four_generator_calls', z3.BoolVal(False))]
        want_unseeded = dict(r.registered, seed=None)
        want_seeded = dict(r.registered, seed=r.seed)
        return [('unseeded_build_alone_uses_registered_parameters', _kw_equal(c[0][1], want_unseeded)),
                ('seeded_build_passes_its_seed', _kw_equal(c[1][1], want_seeded)),
                ('unseeded_build_after_a_seeded_one_is_the_same_request', _kw_equal(c[2][1], c[0][1])),
                ('seeded_build_repeats', _kw_equal(c[3][1], c[1][1])),
                ('unseeded_static_benchmark_leaves_global_generator_alone', z3.BoolVal(len(r.static_reseeds) == 0))]
    if r.inter is None:
        return [('interleaved_run_raises_like_alone_run', z3.BoolVal(False))]
    a, b = r.alone, r.inter
    obl = []

    def eql(x, y):
        if len(x) != len(y):
            return z3.BoolVal(False)
        return z3.And([sx._coerce(p, q_)[0] == sx._coerce(p, q_)[1] for p, q_ in zip(x, y)] + [z3.BoolVal(True)])
    obl.append(('reset_observation_independent', eql(a['reset_obs'], b['reset_obs'])))
    obl.append(('step_observation_independent', eql(a['obs'], b['obs'])))
    obl.append(('reward_independent', a['reward'] == b['reward']))
    obl.append(('done_independent', a['done'] == b['done']))
    obl.append(('info_independent', z3.And([a['info'][k] == b['info'][k] for k in a['info']])
                if set(a['info']) == set(b['info']) else z3.BoolVal(False)))
    obl.append(('next_state_independent', common.rows_equal(a['ns'], b['ns'])
                if len(a['ns']) == len(b['ns']) and len(a['ns'][0]) == len(b['ns'][0]) else z3.BoolVal(False)))
    for k_ in ('late_returned_obs', 'late_last_obs', 'late_reset_obs'):
        obl.append((k_ + '_independent', eql(a[k_], b[k_])))
    obl.append(('decoding_independent', z3.And([a['readable'][k] == b['readable'][k] for k in a['readable']])
                if set(a['readable']) == set(b['readable']) else z3.BoolVal(False)))
    return obl


def witnesses(r):
    if r.q['kind'] == 'bench_params':
        return ['bench_params']
    out = []
    v = r.q['b_variant']
    out.append(dict(object='same_object', content='same_layout', names='other_names', sizes='other_sizes')[v])
    ok, _ = sx.valid(r.res['success'])
    if ok:
        out.append('success')
    elif sx.valid(z3.Not(r.res['success']))[0]:
        out.append('failure')
    return out


def describe(r):
    if r.q['kind'] == 'bench_params':
        return dict(calls=[{k: str(v) for k, v in kw.items() if k in ('seed', 'name')} for _, kw in r.calls])
    return dict(b_variant=r.q['b_variant'], b_inserted_before=A_OPS[r.q['b_pos']],
                interleaved_exception=repr(r.inter_exc) if r.inter_exc is not None else None)
