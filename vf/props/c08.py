"""C08 -- observations are truthful, minimal and complete for the action taken.

Real NASimEnv.generative_step (State.get_observation, HostVector.observe, Observation.*) and the
initial observation of reset(), in both observability modes, on symbolic scenario/state/action.
Per host cell o[i][j] of a partially observable observation: o == 0 or o == next_state[i][j]; rows
other than the target (for a subnet scan: the hosts of connected subnets) are all zero; cells
outside the entitlement of the action kind are zero, entitled cells equal the state (revealed in
full); failures and no-ops reveal no host cell.  Fully observable: host rows == next state.
Auxiliary row == (success, connection error, permission error, undefined error, 0, ...).
Entitlement table (property statement; README change log 0.7.4 / 0.9.0):
  always on success: address, reachable, discovered      exploit: + compromised, services, OS, access, value
  escalation: + compromised, access      service scan: + services      OS scan: + OS
  process scan: + processes, access
  subnet scan: target + compromised; every host of a connected subnet: address, reachable,
               discovered, and its discovery value iff newly discovered by this scan.
"""
import z3

from .. import symex as sx
from .. import scen, dyn, stubs
from ..scen import Shape, tz, public
from . import common

import nasim.envs.environment as m_env

ID = "C08"
TECHNIQUE = "symbolic execution of the real generative_step/get_observation/observe/reset by z3 proxy values; per-cell observation obligations against a declarative entitlement table; counterexample replay"
needs_reach = True
EXTRA_STUBS = dyn.EXTRA_STUBS
REQUIRED_WITNESSES = ['success_exploit', 'success_subnet_scan', 'success_process_scan', 'failure', 'initobs']
STUBS, ASSUMPTIONS = common.STUBS, common.ASSUMPTIONS
BOUNDS = dict(quick=common.BOUNDS['quick'] + "; both observability modes", thorough=common.BOUNDS['thorough'] + "; both observability modes")
prefer = common.prefer

ENTITLED = dict(
    exploit=('comp', 'srv', 'os', 'acc', 'value'),
    privesc=('comp', 'acc'),
    service_scan=('srv',),
    os_scan=('os',),
    process_scan=('prc', 'acc'),
    subnet_scan=('comp',),
)
BASE = ('subnet', 'host', 'reach', 'disc')


def queries(tier, seed=0):
    qs = []
    for fo in (False, True):
        for q in dyn.base_queries(tier, level='gen'):
            if fo and tier == 'quick' and (q.get('os') is not None or q['target'] != [1, 0]):
                continue
            d = dict(q)
            d['fully_obs'] = fo
            qs.append(d)
    # feature groups of different widths: more processes than services
    wide = Shape([1, 1], 1, 1, 3).to_json()
    for kind, nm in (('process_scan', None), ('exploit', 's0'), ('privesc', 'p2')):
        qs.append(dict(shape=wide, kind=kind, target=[1, 0], name=nm, os=None, level='gen', fully_obs=False, host_fw=False))
    shapes = {}
    for q in qs:
        shapes[str(q['shape'])] = q['shape']
    for sh in shapes.values():
        for fo in (False, True):
            qs.append(dict(shape=sh, kind='initobs', target=[1, 0], level='env', fully_obs=fo, no_reach=True))
            qs.append(dict(shape=sh, kind='initobs', target=[1, 0], level='env', fully_obs=fo, from_state=True))
    return qs


def run(src, q):
    if q['kind'] != 'initobs':
        return dyn.run(src, q)
    shape = Shape.from_json(q['shape'])
    w = scen.build_world(src, shape)
    r = dyn.Rec()
    r.q, r.w = q, w
    with stubs.sut():
        env = m_env.NASimEnv(w.scenario, fully_obs=q['fully_obs'], flat_obs=False)
    if q.get('from_state'):
        # reset at an arbitrary point of an episode: the observation describes the new episode
        r.pre = scen.symbolic_state(w, env.current_state)
        r.st = scen.zstatus(r.pre)
        if src.symbolic:
            sx.assume(scen.inv(w, r.st))
            sx.check_feasible()
    with stubs.sut():
        o, info = env.reset()
    r.obs_rows = dyn.tensor_rows(o)
    r.lastobs_rows = dyn.tensor_rows(env.last_obs.tensor)
    r.state_rows = dyn.tensor_rows(env.current_state.tensor)
    r.info = info
    return r


def cols(groups):
    lay = scen.code_layout()
    out = []
    for g in groups:
        out += lay[g]
    return out


def obligations(r):
    w, q = r.w, r.q
    lay = scen.code_layout()
    size = lay['size']
    nh = len(w.addrs)
    hidx = w.scenario.host_num_map
    zero = lambda row, cs=None: z3.And([row[j] == 0 for j in (cs if cs is not None else range(size))])
    obl = []
    if q['kind'] == 'initobs':
        orow, srow = r.obs_rows, r.state_rows
        obl.append(('initial_obs_is_last_obs', common.rows_equal(r.obs_rows, r.lastobs_rows)))
        obl.append(('initial_obs_aux_row_zero', zero(orow[nh])))
        for a in w.addrs:
            i = hidx[a]
            if q['fully_obs']:
                obl.append(('initial_obs_full_state_%d%d' % a, common.rows_equal([orow[i]], [srow[i]])))
            else:
                ent = cols(BASE)
                rest = [j for j in range(size) if j not in ent]
                reach = public(w, a[0])
                shown = z3.And(common.rows_equal([orow[i]], [srow[i]], ent), zero(orow[i], rest))
                obl.append(('initial_obs_partial_%d%d' % a, z3.If(reach, shown, zero(orow[i]))))
        return obl
    A, st, post = r.A, r.st, r.post
    succ = r.res['success']
    orow = dyn.tensor_rows(r.obs.tensor)
    prow = r.post_rows
    t = A.target
    # auxiliary row, both modes
    aux = orow[nh]
    b2i = lambda b: z3.If(b, 1, 0)
    auxok = [aux[0] == b2i(succ), aux[1] == b2i(r.res['conn']), aux[2] == b2i(r.res['perm']),
             aux[3] == b2i(r.res['undef'])] + [aux[j] == 0 for j in range(4, size)]
    obl.append(('aux_row_carries_flags', z3.And(auxok)))
    if q.get('fully_obs'):
        obl.append(('fully_observable_rows_equal_state', common.rows_equal(orow[:nh], prow[:nh])))
        return obl
    truthful = []
    for i in range(nh):
        for j in range(size):
            o, p = sx._coerce(orow[i][j], prow[i][j])
            truthful.append(z3.Or(o == 0, o == p))
    obl.append(('nonzero_entries_equal_state', z3.And(truthful)))
    allzero = z3.And([zero(orow[i]) for i in range(nh)])
    if A.kind == 'noop':
        obl.append(('noop_reveals_nothing', allzero))
        return obl
    obl.append(('failure_reveals_nothing', z3.Implies(z3.Not(succ), allzero)))
    ent_t = cols(BASE + ENTITLED[A.kind])
    for a in w.addrs:
        i = hidx[a]
        if a == t:
            rest = [j for j in range(size) if j not in ent_t]
            full = common.rows_equal([orow[i]], [prow[i]], ent_t)
            obl.append(('target_row_entitled_cells_revealed', z3.Implies(succ, full)))
            obl.append(('target_row_other_cells_hidden', z3.Implies(succ, zero(orow[i], rest))))
        elif A.kind == 'subnet_scan':
            conn = tz(w, t[0], a[0])
            newly = z3.And(conn, st[a]['disc'] == 0)
            ent = cols(BASE)
            dv = lay['dvalue']
            rest = [j for j in range(size) if j not in ent and j not in dv]
            shown = z3.And(common.rows_equal([orow[i]], [prow[i]], ent), zero(orow[i], rest),
                           z3.If(newly, common.rows_equal([orow[i]], [prow[i]], dv), zero(orow[i], dv)))
            obl.append(('scan_row_%d%d' % a, z3.Implies(succ, z3.If(conn, shown, zero(orow[i])))))
        else:
            obl.append(('other_row_zero_%d%d' % a, zero(orow[i])))
    return obl


def witnesses(r):
    if r.q['kind'] == 'initobs':
        return ['initobs']
    return common.outcome_witnesses(r)


def describe(r):
    if r.q['kind'] == 'initobs':
        return dict(kind='initobs', obs=[[str(z3.simplify(c)) for c in row] for row in r.obs_rows])
    d = common.describe(r)
    d['obs'] = [[str(z3.simplify(c)) for c in row] for row in dyn.tensor_rows(r.obs.tensor)]
    return d
