"""C07 -- stochastic actions succeed with exactly their stated probability.

np.random.rand is replaced by a symbolic draw u in [0,1) (the draw *is* intercepted; no frequency
testing).  Obligations per path of the real Network.perform_action:
 - at most one draw;
 - with all preconditions true and chance applicable: u < p => success, u > p => failure,
   p == 1 => success, p == 0 => failure (if the code made no draw at all the outcome must still
   respect p == 0 / p == 1 -- it cannot for a symbolic p, which is how a removed gate shows up);
 - a chance failure changes nothing, gains nothing and reports undefined_error only;
 - actions whose network-level gates fail never report success or a chance failure;
 - re-exploiting a compromised host with true preconditions succeeds for every draw;
 - never success together with an error flag, never two error flags.
"""
import z3

from .. import symex as sx
from .. import dyn
from . import common

ID = "C07"
TECHNIQUE = "symbolic execution of the real Network.perform_action with the random draw as a solver variable; boundary cases u==p, p==0, p==1 decided by z3; counterexample replay with a scripted draw"
needs_reach = True
EXTRA_STUBS = dyn.EXTRA_STUBS
REQUIRED_WITNESSES = ['success_exploit', 'failure', 'flag_undef', 'draws_0', 'draws_1']
STUBS, ASSUMPTIONS, BOUNDS = common.STUBS, common.ASSUMPTIONS, common.BOUNDS
describe = common.describe
prefer = common.prefer


def queries(tier, seed=0):
    qs = dyn.base_queries(tier, level='net')
    # the stated probability must be the one in force whichever way the action is passed in
    extra = []
    for q in dyn.base_queries(tier, level='gen', kinds=('exploit', 'privesc')):
        if q['shape']['sizes'] == [1, 1] and q.get('os') is None:
            for dec in ('flat', 'param'):
                d = dict(q)
                d['decode'] = dec
                extra.append(d)
    return qs + extra


run = dyn.run


def obligations(r):
    w, A, st, post, step = r.w, r.A, r.st, r.post, r.step
    succ, undef, conn, perm = r.res['success'], r.res['undef'], r.res['conn'], r.res['perm']
    val = r.res['value']
    t = A.target
    obl = []
    obl.append(('at_most_one_draw', z3.BoolVal(r.ndraws <= 1)))
    flags = [conn, perm, undef]
    obl.append(('no_success_with_error_flag', z3.Not(z3.And(succ, z3.Or(flags)))))
    obl.append(('at_most_one_error_flag', sx.at_most_one(flags)))
    same = common.rows_equal(r.pre_rows, r.post_rows)
    obl.append(('undefined_error_changes_and_gains_nothing',
                z3.Implies(undef, z3.And(same, val == 0, z3.Not(succ)))))
    if A.kind == 'noop':
        obl.append(('noop_unaffected_by_chance', z3.And(succ, z3.Not(undef))))
        return obl
    gates = z3.And(step.conn, step.pivot, step.traffic)
    if A.kind == 'privesc':
        gates = z3.And(gates, st[t]['comp'] == 1)
    obl.append(('failed_gates_unaffected_by_chance', z3.Implies(z3.Not(gates), z3.And(z3.Not(succ), z3.Not(undef)))))
    if A.kind == 'exploit':
        obl.append(('reexploit_never_fails_by_chance',
                    z3.Implies(z3.And(step.pre_ok, st[t]['comp'] == 1), z3.And(succ, z3.Not(undef)))))
    chance = z3.And(step.pre_ok, z3.Not(step.nochance))
    p = step.p if step.p is not None else sx.znum(A.prob)
    if r.ndraws >= 1:
        u = step.u
        obl.append(('draw_below_prob_succeeds', z3.Implies(z3.And(chance, u < p), succ)))
        obl.append(('draw_above_prob_fails_as_undefined_error',
                    z3.Implies(z3.And(chance, u > p),
                               z3.And(z3.Not(succ), undef, z3.Not(conn), z3.Not(perm), same, val == 0))))
    obl.append(('prob_one_never_fails_by_chance', z3.Implies(z3.And(chance, p == 1), succ)))
    obl.append(('prob_zero_never_succeeds', z3.Implies(z3.And(chance, p == 0), z3.Not(succ))))
    if r.ndraws == 0:
        # no draw on this path: the outcome is the same for every draw, so it must be the one
        # that probability p forces -- impossible unless p is 0 or 1
        obl.append(('outcome_depends_on_draw', z3.Implies(chance, z3.Or(p == 0, p == 1))))
    return obl


witnesses = common.outcome_witnesses
