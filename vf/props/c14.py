"""C14 -- seeded runs and seeded generation are reproducible.

(a) entropy audit (mechanical, AST): every source of nondeterminism in nasim/envs and
    nasim/scenarios other than the np.random functions the stubs model (rand, seed, choice,
    randint, random_sample, poisson) -- the modules random / secrets / time / uuid / datetime,
    os.urandom, hash() outside __hash__, id(), filesystem order, other np.random entry points,
    set iteration outside the generator -- must be absent, otherwise the symbolic claim below does
    not cover the code; a hit is confirmed (or not) by comparing digests across processes.
(b) determinism: under the stubs every output is a term over the stream variables; a stage run
    twice in one path with the same stream variables must give equal results (hidden state).
(c) hash-order independence: `set` in the generator is replaced by a set whose iteration order
    follows one arbitrary total order of the names per process (one PYTHONHASHSEED per
    interpreter = a solver-chosen permutation); a stage is run twice in one path -- "process A"
    and "process B" -- with the same stream variables and independent orders; the outputs must be
    equal.  Replay: the stage with the model's inputs and stream in sub-processes with different
    PYTHONHASHSEED values; differing outputs confirm the violation.
Cross-process equality of numpy's own generator for equal seeds is trusted.
"""
import ast
import json
import os
import subprocess
import sys

import z3

from .. import symex as sx
from .. import scen, dyn, stubs, genh, inject
from . import c15

import nasim.scenarios.generator as m_gen
import nasim.scenarios.utils as u

ID = "C14"
TECHNIQUE = "relational symbolic execution of the real generator stages run twice with the same symbolic random stream and independent solver-chosen set iteration orders (one per simulated process); AST entropy-source audit; replay in sub-processes with different PYTHONHASHSEED"
needs_reach = False
EXTRA_STUBS = genh.EXTRA_STUBS
GROUP_BY_QUERY = True
REQUIRED_WITNESSES = ['orders_differ', 'same_order', 'firewall', 'vulnerability', 'privescs', 'glue_twice', 'bench_params', 'audit_clean']
STUBS = c15.STUBS + ["set (generator module) -> name set iterated in a solver-chosen total order per simulated process"]
ASSUMPTIONS = ["numpy's RandomState is a function of its seed in every process (trusted)",
               "entropy audit: no source other than the modelled np.random functions and set iteration in the generator (checked mechanically on every run; rendering is out of scope)"]
BOUNDS = dict(quick="firewall stage: 3 hosts, 2-3 services, restrictiveness 1..2, symbolic host configurations; vulnerability stage 3 hosts; whole generate() on the tiny parameter set run twice",
              thorough="adds 4 hosts and 3 services with restrictiveness 2..3")
MODELLED_RANDOM = {'rand', 'seed', 'choice', 'randint', 'random_sample', 'random', 'uniform', 'poisson'}
AUDIT_DIRS = ['nasim/envs', 'nasim/scenarios', 'nasim/__init__.py']
AUDIT_EXCLUDE = ['nasim/envs/render.py']


# ------------------------------------------------------------------ (a) audit

class _Audit(ast.NodeVisitor):
    def __init__(self, rel):
        self.rel = rel
        self.hits = []
        self.stack = []
        self.sets = 0

    def visit_Import(self, node):
        for a in node.names:
            if a.name.split('.')[0] in ('random', 'secrets', 'time', 'uuid', 'datetime', 'glob'):
                self.hits.append((self.rel, node.lineno, "import %s" % a.name))

    def visit_ImportFrom(self, node):
        if (node.module or '').split('.')[0] in ('random', 'secrets', 'time', 'uuid', 'datetime', 'glob'):
            self.hits.append((self.rel, node.lineno, "from %s import ..." % node.module))
        if (node.module or '') in ('numpy.random',):
            self.hits.append((self.rel, node.lineno, "from numpy.random import ..."))

    def visit_FunctionDef(self, node):
        self.stack.append(node.name)
        self.generic_visit(node)
        self.stack.pop()

    def visit_Call(self, node):
        f = node.func
        if isinstance(f, ast.Name):
            if f.id == 'hash' and '__hash__' not in self.stack:
                self.hits.append((self.rel, node.lineno, "hash() outside __hash__"))
            if f.id == 'id':
                self.hits.append((self.rel, node.lineno, "id()"))
            if f.id in ('set', 'frozenset') and not self.rel.endswith('generator.py'):
                par = getattr(node, '_parent', None)
                ok = isinstance(par, ast.Call) and isinstance(par.func, ast.Name) and par.func.id == 'len'
                if not ok:
                    self.hits.append((self.rel, node.lineno, "set constructed outside len(): iteration order depends on PYTHONHASHSEED"))
        if isinstance(f, ast.Attribute):
            chain = []
            x = f
            while isinstance(x, ast.Attribute):
                chain.append(x.attr)
                x = x.value
            if isinstance(x, ast.Name):
                chain.append(x.id)
            chain = list(reversed(chain))
            if len(chain) >= 3 and chain[0] in ('np', 'numpy') and chain[1] == 'random' and \
               chain[2] not in MODELLED_RANDOM:
                self.hits.append((self.rel, node.lineno, "np.random.%s is not modelled" % chain[2]))
            if chain[:2] == ['os', 'urandom'] or chain[:2] == ['os', 'listdir'] or chain[:2] == ['os', 'scandir']:
                self.hits.append((self.rel, node.lineno, '.'.join(chain)))
        self.generic_visit(node)

    def visit_Set(self, node):
        if not self.rel.endswith('generator.py'):
            self.hits.append((self.rel, node.lineno, "set literal"))
        self.generic_visit(node)

    def visit_SetComp(self, node):
        if not self.rel.endswith('generator.py'):
            self.hits.append((self.rel, node.lineno, "set comprehension"))
        self.generic_visit(node)


def audit():
    hits, files = [], 0
    for d in AUDIT_DIRS:
        root = os.path.join(inject.REPO, d)
        paths = [root] if root.endswith('.py') else \
            [os.path.join(dp, f) for dp, _, fs in os.walk(root) for f in fs if f.endswith('.py')]
        for p in sorted(paths):
            rel = os.path.relpath(p, inject.REPO)
            if rel in AUDIT_EXCLUDE:
                continue
            with open(p) as f:
                tree = ast.parse(f.read(), p)
            for node in ast.walk(tree):
                for ch in ast.iter_child_nodes(node):
                    ch._parent = node
            a = _Audit(rel)
            a.visit(tree)
            hits += a.hits
            files += 1
    return hits, files


DIGEST_SCRIPT = r'''
import sys, json, hashlib
sys.path.insert(0, %(repo)r)
import numpy as np
import nasim
out = {}
for name, seed in %(cases)r:
    if name.startswith('gen:'):
        kw = dict(exploit_probs=None, privesc_probs=None) if 'probs' in name else {}
        kw.update(uniform=('uniform' in name), random_goal=('rgoal' in name))
        env = nasim.generate(7, 3, num_os=2, num_processes=2, restrictiveness=2, seed=seed, **kw)
    else:
        env = nasim.make_benchmark(name, seed=seed)
    sc = env.scenario
    h = hashlib.sha256()
    h.update(repr(sorted((k, sorted(v)) for k, v in sc.firewall.items())).encode())
    h.update(repr([(a, sorted(x.os.items()), sorted(x.services.items()), sorted(x.processes.items()), x.value) for a, x in sc.hosts.items()]).encode())
    h.update(repr(sorted((k, sorted((kk, str(vv)) for kk, vv in v.items())) for k, v in sc.exploits.items())).encode())
    h.update(repr(sorted((k, sorted((kk, str(vv)) for kk, vv in v.items())) for k, v in sc.privescs.items())).encode())
    h.update(repr(sorted(sc.sensitive_hosts.items())).encode())
    np.random.seed(seed)
    env.reset()
    n = len(env.action_space.actions)
    for t in range(80):
        a = env.action_space.actions[int(np.random.randint(n))]
        o, r, d, l, info = env.step(a)
        h.update(o.tobytes()); h.update(repr((float(r), bool(d), bool(l))).encode())
        if d or l:
            env.reset()
    out[name + ':' + str(seed)] = h.hexdigest()
print(json.dumps(out))
'''


def cross_process_digests(cases, hashseeds=(0, 1, 2, 3)):
    res = {}
    script = DIGEST_SCRIPT % dict(repo=inject.REPO, cases=cases)
    for hs in hashseeds:
        env = dict(os.environ, PYTHONHASHSEED=str(hs))
        env.pop('PYTHONPATH', None)
        out = subprocess.run([sys.executable, '-c', script], env=env, capture_output=True, text=True, timeout=600)
        if out.returncode != 0:
            raise RuntimeError("digest subprocess failed: " + out.stderr[-500:])
        res[hs] = json.loads(out.stdout.strip().splitlines()[-1])
    return res


# ------------------------------------------------------------------ (b), (c) queries

def queries(tier, seed=0):
    qs = []
    sizes = [(3, 2), (3, 3)] + ([(4, 2), (4, 3)] if tier != 'quick' else [])
    for (n, S) in sizes:
        for rs in ((1, 2) if S == 2 else (2,)) if tier == 'quick' else (1, 2, 3):
            # 3 services: 36 order pairs; host configurations concrete (every service everywhere)
            qs.append(dict(stage='firewall', n=n, S=S, O=1, P=1, restrictiveness=rs,
                           defs=0 if S == 2 else 3, concrete_hosts=(S == 3)))
    qs.append(dict(stage='vulnerability', n=3, S=2, O=2, P=2, defs=0))
    qs.append(dict(stage='privescs', O=3, P=2, PE=3))
    qs.append(dict(stage='glue_twice', n=3, S=1, O=1, P=1))
    for name in ('tiny-gen', 'medium-gen'):
        qs.append(dict(stage='bench_params', kind='bench_params', name=name))
    return qs


C14_FDEFS = {0: dict(e=[(0, None), (1, None)]), 3: dict(e=[(0, None), (1, None), (2, None)])}


def make_order(src, tag, names):
    """a solver-chosen total order of the names for one simulated process"""
    ranks = {nm: src.int("ord%s_%s" % (tag, nm), 0, len(names) - 1) for nm in names}
    if src.symbolic:
        sx.assume(z3.Distinct([sx.znum(v) for v in ranks.values()]))
    else:
        # replay helper: a missing / degenerate order falls back to sorted
        if len(set(ranks.values())) != len(names):
            ranks = {nm: i for i, nm in enumerate(sorted(names))}

    def order(elems):
        import functools

        def cmp(x, y):
            if x not in ranks or y not in ranks:
                return -1 if str(x) < str(y) else 1
            return -1 if ranks[x] < ranks[y] else 1      # forks on symbolic ranks
        return sorted(elems, key=functools.cmp_to_key(cmp))
    return order, ranks


def _build(src, q):
    g = genh.new_generator(q['S'], q['O'], q['P'], subnets=genh.subnets_for(q['n']))
    g.sensitive_hosts = {(2, 0): 10, (len(g.subnets) - 1, g.subnets[-1] - 1): 10}
    if q['stage'] == 'firewall':
        g.exploits = genh.symbolic_exploits(src, g, C14_FDEFS[q['defs']]['e'])
        g.privescs = {}
    else:
        d = c15.VDEFS[q['defs']]
        g.exploits = genh.symbolic_exploits(src, g, d['e'])
        g.privescs = genh.symbolic_privescs(src, g, d['pe'])
    return g


def _fw_plain(fw):
    return {k: sorted(list(v)) for k, v in fw.items()}


def _hosts_plain(hosts):
    return {a: (dict(h.os), dict(h.services), dict(h.processes)) for a, h in hosts.items()}


def run(src, q):
    if q['stage'] == 'bench_params':
        from . import c19
        r = c19.run_bench(src, q)
        r.capped = False
        return r
    r = dyn.Rec()
    r.q = q
    st = q['stage']
    r.capped = False
    if st == 'glue_twice':
        outs = []
        seed_ = src.int('seed', 0, None)
        r.seed_logs = []
        for k in range(2):
            with genh.stream(src, cap=80) as rnd:
                g = m_gen.ScenarioGenerator()
                with stubs.sut():
                    sc = g.generate(q['n'], q['S'], num_os=q['O'], num_processes=q['P'], uniform=True,
                                    restrictiveness=1, seed=seed_)
            r.seed_logs.append([x for x in rnd.log if x[0] == 'seed'])
            outs.append(sc)
        r.outs = outs
        return r
    if st == 'privescs':
        return _run_privescs(src, q, r)
    g0 = _build(src, q)
    names = list(g0.services)
    outs = []
    r.orders = []
    try:
        for tag in ('A', 'B'):
            g = _build(src, q)
            with stubs.sut():
                g._generate_topology()
            if q.get('concrete_hosts'):
                from nasim.scenarios.host import Host
                # only the DMZ offers a choice (every service there, one service elsewhere), so the
                # random picks of independent rules do not multiply
                g.hosts = {(s_, h_): Host((s_, h_), {o: i == 0 for i, o in enumerate(g.os)},
                                         {x: (s_ == 1 or j == 0) for j, x in enumerate(g.services)},
                                         {x: True for x in g.processes}, {})
                           for s_, size in enumerate(g.subnets) if s_ for h_ in range(size)}
            else:
                g.hosts, _bits = genh.symbolic_hosts(src, g, g.sensitive_hosts)   # same variables both times
            if tag == 'A' and src.symbolic and st == 'firewall' and not q.get('concrete_hosts'):
                for s in range(1, len(g.subnets)):
                    sx.assume(z3.Or([genh.host_vulnerable(h, g.exploits, g.privescs, False)
                                     for a, h in g.hosts.items() if a[0] == s]))
                sx.check_feasible()
            order, ranks = make_order(src, tag, names)
            r.orders.append(ranks)
            genh.OrderedNameSet.order = staticmethod(order) if False else order
            try:
                with genh.stream(src, cap=40) as rnd:
                    with stubs.sut():
                        if st == 'firewall':
                            g._generate_firewall(q['restrictiveness'])
                            outs.append(_fw_plain(g.firewall))
                        else:
                            g._ensure_host_vulnerability()
                            outs.append(_hosts_plain(g.hosts))
            finally:
                genh.OrderedNameSet.order = None
    except genh.StreamCap:
        r.capped = True
    r.outs = outs
    return r


def _run_privescs(src, q, r):
    outs = []
    r.orders = []
    try:
        for tag in ('A', 'B'):
            g = genh.new_generator(1, q['O'], q['P'])
            order, ranks = make_order(src, tag, list(g.os))
            r.orders.append(ranks)
            genh.OrderedNameSet.order = order
            try:
                with genh.stream(src, cap=7):     # one os_choices round, three process draws, one retry
                    with stubs.sut():
                        g._generate_privescs(q['PE'], 1, 1.0)
                outs.append({k: dict(v) for k, v in g.privescs.items()})
            finally:
                genh.OrderedNameSet.order = None
    except genh.StreamCap:
        r.capped = True
    r.outs = outs
    return r


def _eq_struct(a, b):
    if isinstance(a, dict) and isinstance(b, dict):
        if set(a.keys()) != set(b.keys()):
            return z3.BoolVal(False)
        return z3.And([_eq_struct(a[k], b[k]) for k in a] + [z3.BoolVal(True)])
    if isinstance(a, (list, tuple)) and isinstance(b, (list, tuple)):
        if len(a) != len(b):
            return z3.BoolVal(False)
        return z3.And([_eq_struct(x, y) for x, y in zip(a, b)] + [z3.BoolVal(True)])
    if sx.is_sym(a) or sx.is_sym(b) or isinstance(a, (bool, int, float)) and isinstance(b, (bool, int, float)):
        if isinstance(a, (sx.SymBool, bool)) and isinstance(b, (sx.SymBool, bool)):
            return sx.zbool(a) == sx.zbool(b)
        x, y = sx._coerce(sx.znum(a), sx.znum(b))
        return x == y
    return z3.BoolVal(a == b)


def _scenario_plain(sc):
    return dict(subnets=list(sc.subnets), sens={k: v for k, v in sc.sensitive_hosts.items()},
                exploits={k: dict(v) for k, v in sc.exploits.items()},
                privescs={k: dict(v) for k, v in sc.privescs.items()},
                hosts=_hosts_plain(sc.hosts), fw=_fw_plain(sc.firewall))


def obligations(r):
    if r.capped:
        return []
    st = r.q['stage']
    if st == 'bench_params':
        from . import c19
        return c19.obligations(r)
    if st == 'glue_twice':
        a, b = (_scenario_plain(x) for x in r.outs)
        seeded = [z3.And(z3.BoolVal(len(l) == 1 and l[0][1] is not None), sx.znum(l[0][1]) == z3.Int('seed'))
                  if len(l) == 1 and l[0][1] is not None else z3.BoolVal(False) for l in r.seed_logs]
        return [('same_parameters_and_stream_give_same_scenario', _eq_struct(a, b)),
                ('every_seed_value_seeds_the_generator', z3.And(seeded))]
    return [('output_independent_of_set_iteration_order', _eq_struct(r.outs[0], r.outs[1]))]


def witnesses(r):
    if r.capped:
        return []
    st = r.q['stage']
    if st == 'bench_params':
        return ['bench_params']
    if st == 'glue_twice':
        return ['glue_twice']
    out = [st]
    ra, rb = r.orders
    same = z3.And([sx.znum(ra[k]) == sx.znum(rb[k]) for k in ra])
    if not sx.valid(z3.Not(same))[0]:
        out.append('same_order')
    if not sx.valid(same)[0]:
        out.append('orders_differ')
    return out


def describe(r):
    if r.q['stage'] == 'bench_params':
        from . import c19
        return c19.describe(r)
    return dict(stage=r.q['stage'], outputs=[str(o)[:400] for o in r.outs])


REPLAY_SCRIPT = r'''
import sys, json
sys.path.insert(0, %(verif)r); sys.path.insert(0, %(repo)r)
from vf import scen, genh, stubs
from vf.props import c14
import json
f = json.loads(%(failure)r)
src = scen.ConcSource(f['model'])
q = f['q']
if q['stage'] == 'privescs':
    g = genh.new_generator(1, q['O'], q['P'])
    with genh.stream(src, cap=None) as rnd:
        g._generate_privescs(q['PE'], 1, 1.0)
    print(json.dumps(sorted((k, sorted((kk, str(vv)) for kk, vv in v.items())) for k, v in g.privescs.items())))
    sys.exit(0)
g = c14._build(src, q)
g._generate_topology()
if q.get('concrete_hosts'):
    from nasim.scenarios.host import Host
    g.hosts = {(s_, h_): Host((s_, h_), {o: i == 0 for i, o in enumerate(g.os)}, {x: (s_ == 1 or j == 0) for j, x in enumerate(g.services)}, {x: True for x in g.processes}, {}) for s_, size in enumerate(g.subnets) if s_ for h_ in range(size)}
else:
    g.hosts, _ = genh.symbolic_hosts(src, g, g.sensitive_hosts)
with genh.stream(src, cap=None) as rnd:
    if q['stage'] == 'firewall':
        g._generate_firewall(q['restrictiveness'])
        out = sorted((str(k), sorted(v)) for k, v in g.firewall.items())
    else:
        g._ensure_host_vulnerability()
        out = sorted((str(a), sorted(h.os.items()), sorted(h.services.items()), sorted(h.processes.items())) for a, h in g.hosts.items())
print(json.dumps(out))
'''


def replay_confirm(failure):
    """the real stage (real set, real numpy) with the model's inputs and stream, in sub-processes
    with different PYTHONHASHSEED values"""
    if failure['q']['stage'] in ('glue_twice', 'bench_params') or failure['obligation'] == 'no_exception':
        from .. import replay as _replay
        mod = sys.modules[__name__]
        saved = mod.replay_confirm
        try:
            del mod.replay_confirm
            return _replay.confirm(mod, failure)
        finally:
            mod.replay_confirm = saved
    verif = os.path.dirname(os.path.dirname(os.path.dirname(os.path.abspath(__file__))))
    script = REPLAY_SCRIPT % dict(verif=verif, repo=inject.REPO,
                                  failure=json.dumps(dict(model=failure['model'], q=failure['q'])))
    outs = {}
    for hs in range(0, 8):
        env = dict(os.environ, PYTHONHASHSEED=str(hs))
        p = subprocess.run([sys.executable, '-c', script], env=env, capture_output=True, text=True, timeout=120)
        if p.returncode != 0:
            return 'error', "replay subprocess failed: " + p.stderr[-800:]
        outs[hs] = p.stdout.strip().splitlines()[-1]
        if len(set(outs.values())) > 1:
            a, b = list(outs.items())[0], (hs, outs[hs])
            return 'confirmed', dict(stage=failure['q']['stage'],
                                     note="same parameters, host configurations and random stream; different PYTHONHASHSEED",
                                     hashseed_a=a[0], output_a=a[1][:600], hashseed_b=b[0], output_b=b[1][:600],
                                     inputs=failure['model'])
    return 'unconfirmed', "12 PYTHONHASHSEED values gave identical outputs"


def main(tier, seed):
    from .. import runner, lockstep
    mod = sys.modules[__name__]
    report = runner.Report(ID, tier, seed)
    try:
        hits, files = audit()
        report.extra['entropy_audit'] = dict(files=files, hits=[list(h) for h in hits],
                                             excluded=AUDIT_EXCLUDE, modelled=sorted(MODELLED_RANDOM))
        if hits:
            # unknown entropy source: outside what the stubs model -> confirm concretely or stop
            cases = [('tiny-gen', 1), ('small-gen', 2), ('medium-gen', 3), ('tiny', 4), ('small', 5),
                     ('gen:probs', 6), ('gen:uniform', 7), ('gen:rgoal', 8), ('gen:probs-uniform-rgoal', 9)]
            d1 = cross_process_digests(cases)
            vals = {k: set(d[k] for d in d1.values()) for k in d1[0]}
            differing = [k for k, v in vals.items() if len(v) > 1]
            if differing:
                path = runner.save_replay(ID, dict(property=ID, obligation='cross_process_digest', module=__name__,
                                                   query=dict(cases=cases), model={}, detail=dict(audit_hits=hits, digests=d1)))
                report.violations.append(path)
                runner.write_evidence(report, mod, False, 1)
                print("entropy audit hits: %s; digests differ across processes for %s" % (hits, differing))
                print("VIOLATION property=%s replay=%s" % (ID, path))
                return runner.EXIT_VIOLATION
            report.errors.append("entropy audit: unmodelled source(s) %s (digests equal across 4 processes: inconclusive)" % hits)
        else:
            report.witnesses['audit_clean'] = files
        report.validated = lockstep.validate(seed, report)
        qs = queries(tier, seed)
        runner.explore_all(__name__, qs, report)
        return runner.finish(report, mod)
    except BaseException as e:
        import traceback
        traceback.print_exc()
        report.errors.append("%s: %s" % (type(e).__name__, e))
        runner.write_evidence(report, mod, False, 0)
        return runner.EXIT_HARNESS
