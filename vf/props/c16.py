"""C16 -- generated and shipped scenarios are always solvable.

(A) generated, every seed, bounded shapes: the real _ensure_host_vulnerability and
_generate_firewall run, one after the other, on arbitrary well-formed host configurations
(symbolic OS / service / process bits), symbolic exploit access levels and escalation sets that
cover every OS (the post-conditions C15 proves for the earlier stages), under an arbitrary random
stream.  On what the real code produced, the solver must show Goal_K: the K-layer unrolling of the
monotone fix-point of the step relation Step* (vf/spec.py, tied to the real dynamics by C01-C03)
with chance forced to succeed -- which hosts can be compromised / rooted, which subnets are
discovered and reachable -- gives root on every sensitive host.  A counterexample is replayed:
the stages are re-run on the real generator with the model's inputs and stream, the Scenario is
constructed by the real _construct_scenario and attacked on the real NASimEnv.
(B) concrete instances: the nine shipped YAML files (and the nine generated benchmarks for
VERIF_SEED-derived seeds, reported as sampling): a plan is searched on the real environment with
np.random.rand scripted to succeed, then replayed from reset on a fresh environment and must end
with terminated = True.
"""
import sys

import z3

from .. import symex as sx
from .. import scen, dyn, stubs, genh, inject
from . import c15

import nasim
import nasim.envs.environment as m_env
import nasim.scenarios.generator as m_gen
import nasim.scenarios.utils as u

ID = "C16"
TECHNIQUE = "symbolic execution of the real _ensure_host_vulnerability + _generate_firewall on symbolic host configurations and random stream, then a z3 validity query that the layered attack closure of the produced scenario roots every sensitive host; shipped scenarios: plan found and replayed on the real environment with scripted draws"
needs_reach = False
EXTRA_STUBS = genh.EXTRA_STUBS
GROUP_BY_QUERY = True
REQUIRED_WITNESSES = ['generated_closure', 'shipped_plans']
STUBS = c15.STUBS
ASSUMPTIONS = ["inputs of the two stages: any well-formed host configurations, exploit access levels in {USER, ROOT}, escalations covering every OS or OS-agnostic (post-conditions proved by the C15 check), topology from the real _generate_topology",
               "attack closure = Step* with every draw succeeding (probabilities are in (0,1] by C15; the C15 known finding about probability 0 is excluded)",
               "generated scenarios of other shapes than those listed are covered by sampling only (benchmark parameter sets, VERIF_SEED-derived seeds)"]
BOUNDS = dict(quick="num_hosts 3 and 4, S=2, O=2, P=2, three exploit / escalation definition sets, restrictiveness 1..3 (firewall stage on hosts assumed vulnerable per C15) plus one chained run of both stages; nine shipped files; nine generated benchmarks x 2 seeds (sampling)",
              thorough="adds num_hosts 5 and the chained runs for every definition set; 5 seeds")


def queries(tier, seed=0):
    qs = []
    # assume/guarantee: hosts satisfy the post-condition of _ensure_host_vulnerability (proved by
    # the C15 check); the real _generate_firewall runs; the closure must reach the goal
    for n in ((3, 4) if tier == 'quick' else (3, 4, 5)):
        for di in range(len(c15.VDEFS)):
            for rs in (1, 2, 3):
                if tier == 'quick' and n == 4 and rs == 3:
                    continue
                qs.append(dict(stage='closure', chained=False, n=n, S=2, O=2, P=2, defs=di, restrictiveness=rs))
    # chained: both real stages one after the other (no assumption about the vulnerability stage)
    if tier == 'quick':
        qs.append(dict(stage='closure', chained=True, n=3, S=2, O=2, P=1, defs=1, restrictiveness=1))
    else:
        for di in range(len(c15.VDEFS)):
            for rs in (1, 2):
                qs.append(dict(stage='closure', chained=True, n=3, S=2, O=2, P=2, defs=di, restrictiveness=rs))
    return qs


def _prepare(src, q):
    g = genh.new_generator(q['S'], q['O'], q['P'], subnets=genh.subnets_for(q['n']))
    d = c15.VDEFS[q['defs']]
    d = dict(e=d['e'], pe=[(pi % q['P'], oi) for (pi, oi) in d['pe']])
    g.exploits = genh.symbolic_exploits(src, g, d['e'])
    g.privescs = genh.symbolic_privescs(src, g, d['pe'])
    g.sensitive_hosts = {(2, 0): 10, (len(g.subnets) - 1, g.subnets[-1] - 1): 10}
    g.base_host_value, g.host_discovery_value = 1, 1
    g.hosts, bits = genh.symbolic_hosts(src, g, g.sensitive_hosts)
    return g


def vulnerability_post(g):
    cs = []
    for a in g.sensitive_hosts:
        cs.append(genh.host_vulnerable(g.hosts[a], g.exploits, g.privescs, True))
    for s in range(1, len(g.subnets)):
        cs.append(z3.Or([genh.host_vulnerable(h, g.exploits, g.privescs, False)
                         for a, h in g.hosts.items() if a[0] == s]))
    return z3.And(cs)


def run(src, q):
    r = dyn.Rec()
    r.q = q
    r.capped = False
    g = _prepare(src, q)
    if src.symbolic:
        if not q.get('chained'):
            sx.assume(vulnerability_post(g))
        sx.check_feasible()
    try:
        with genh.stream(src, cap=60):
            with stubs.sut():
                g._generate_topology()
                if q.get('chained'):
                    g._ensure_host_vulnerability()
                g._generate_firewall(q['restrictiveness'])
    except genh.StreamCap:
        r.capped = True
    r.g = g
    return r


def closure_goal(g):
    """layered monotone closure of Step* with forced success on the generator's scenario"""
    n = len(g.subnets)
    T = g.topology
    addrs = list(g.hosts.keys())
    conn = lambda i, j: float(T[i][j]) == 1
    public = lambda s: conn(s, 0)
    fw = g.firewall
    F, Tr = z3.BoolVal(False), z3.BoolVal(True)

    def allowed(i, j, srv):
        if i == j:
            return True
        return conn(i, j) and (i, j) in fw and srv in fw[(i, j)]
    comp = {a: F for a in addrs}
    root = {a: F for a in addrs}
    disc = {s: (Tr if public(s) else F) for s in range(1, n)}
    K = 2 * len(addrs) + 2
    for _ in range(K):
        reach = {s: (Tr if public(s) else z3.Or([comp[g_] for g_ in addrs if conn(g_[0], s)] or [F]))
                 for s in range(1, n)}
        ncomp, nroot = dict(comp), dict(root)
        for a in addrs:
            h = g.hosts[a]
            ways, rootways = [], []
            for e in g.exploits.values():
                srv = e[u.EXPLOIT_SERVICE]
                src_ok = []
                if public(a[0]) and allowed(0, a[0], srv):
                    src_ok.append(Tr)
                for g_ in addrs:
                    if allowed(g_[0], a[0], srv):
                        src_ok.append(comp[g_])
                if not src_ok:
                    continue
                w_ = z3.And(disc[a[0]], reach[a[0]], genh.vulnerable_to_exploit(h, e), z3.Or(src_ok))
                ways.append(w_)
                rootways.append(z3.And(w_, sx.znum(e[u.EXPLOIT_ACCESS]) >= 2))
            can = z3.Or(ways) if ways else F
            ncomp[a] = z3.Or(comp[a], can)
            pes = [genh.vulnerable_to_privesc(h, pe) for pe in g.privescs.values()]
            nroot[a] = z3.Or(root[a], z3.Or(rootways) if rootways else F,
                             z3.And(comp[a], z3.Or(pes) if pes else F))
        ndisc = {s: z3.Or(disc[s], z3.Or([comp[g_] for g_ in addrs if conn(g_[0], s)] or [F])) for s in range(1, n)}
        comp, root, disc = ncomp, nroot, ndisc
    return z3.And([root[a] for a in g.sensitive_hosts])


def obligations(r):
    if r.capped:
        return []
    return [('closure_roots_every_sensitive_host', closure_goal(r.g))]


def witnesses(r):
    return [] if r.capped else ['generated_closure']


def describe(r):
    g = r.g
    return dict(firewall={str(k): sorted(v) for k, v in g.firewall.items()},
                exploits={k: {kk: str(vv) for kk, vv in v.items()} for k, v in g.exploits.items()},
                privescs={k: {kk: str(vv) for kk, vv in v.items()} for k, v in g.privescs.items()})


# ------------------------------------------------------------------ real-environment planning

def attack(env, max_sweeps=200):
    """forced-success closure on the real environment: sweep the flat action list, keep the
    actions that change the state; returns (done, plan)"""
    plan = []
    env.reset()
    done = False
    acts = [a for a in env.action_space.actions if a.is_exploit() or a.is_privilege_escalation() or a.is_subnet_scan()]
    with stubs.ScriptedRand([], default=0.0):
        for _ in range(max_sweeps):
            progress = False
            for a in acts:
                if a.prob <= 0:
                    continue
                before = env.current_state.tensor.copy()
                _, _, done, _, info = env.step(a)
                if info['success'] and not (before == env.current_state.tensor).all():
                    plan.append(a)
                    progress = True
                if done:
                    return True, plan
            if not progress:
                break
    return done, plan


def replay_plan(make_env, plan):
    env = make_env()
    env.reset()
    term = False
    with stubs.ScriptedRand([], default=0.0):
        for a in plan:
            match = [x for x in env.action_space.actions if x == a and x.name == a.name]
            _, _, term, _, _ = env.step(match[0])
    return bool(term)


def replay_confirm(failure):
    """re-run the two stages on the real generator with the model's inputs and stream, construct
    the Scenario with the real _construct_scenario and attack it on the real environment"""
    src = scen.ConcSource(failure['model'])
    q = failure['q']
    g = _prepare(src, q)
    with genh.stream(src, cap=None):
        g._generate_topology()
        if q.get('chained'):
            g._ensure_host_vulnerability()
        g._generate_firewall(q['restrictiveness'])
    g.address_space_bounds = (len(g.subnets), max(g.subnets))
    g.service_scan_cost = g.os_scan_cost = g.subnet_scan_cost = g.process_scan_cost = 1
    g.name, g.step_limit = 'c16', None
    sc = g._construct_scenario()
    env = m_env.NASimEnv(sc)
    done, plan = attack(env)
    if done:
        return 'unconfirmed', "the real environment reaches the goal (%d actions)" % len(plan)
    return 'confirmed', dict(note="no action sequence with succeeding draws reaches the goal on the real environment",
                             firewall={str(k): sorted(v) for k, v in sc.firewall.items()},
                             hosts={str(a): dict(os=h.os, services=h.services, processes=h.processes) for a, h in sc.hosts.items()},
                             exploits=sc.exploits, privescs=sc.privescs, sensitive=[list(a) for a in sc.sensitive_hosts],
                             inputs=failure['model'])


def main(tier, seed):
    from .. import runner, lockstep
    from nasim.scenarios.benchmark import AVAIL_STATIC_BENCHMARKS, AVAIL_GEN_BENCHMARKS
    mod = sys.modules[__name__]
    report = runner.Report(ID, tier, seed)
    try:
        report.validated = lockstep.validate(seed, report)
        qs = queries(tier, seed)
        runner.explore_all(__name__, qs, report)
        # (B) concrete instances on the real environment
        unsolved = []
        plans = {}
        for name in AVAIL_STATIC_BENCHMARKS:
            mk = lambda name=name: nasim.make_benchmark(name)
            done, plan = attack(mk())
            ok = done and replay_plan(mk, plan)
            plans[name] = len(plan)
            report.validated += len(plan)
            if not ok:
                unsolved.append((name, None))
        nseeds = 2 if tier == 'quick' else 5
        sampled = 0
        for name in AVAIL_GEN_BENCHMARKS:
            if tier == 'quick' and name in ('pocp-2-gen',):
                continue
            for k in range(nseeds):
                s = (seed * 7919 + k * 104729 + 1) % 100000
                mk = lambda name=name, s=s: nasim.make_benchmark(name, seed=s)
                done, plan = attack(mk())
                sampled += 1
                if not (done and replay_plan(mk, plan)):
                    unsolved.append((name, s))
        report.extra['shipped_plan_lengths'] = plans
        report.extra['generated_benchmarks_sampled'] = sampled
        if not unsolved:
            report.witnesses['shipped_plans'] = len(plans)
        code = runner.finish(report, mod)
        if unsolved:
            for (name, s) in unsolved:
                path = runner.save_replay(ID, dict(property=ID, obligation='benchmark_solvable', module=__name__,
                                                   query=dict(benchmark=name, seed=s), model={},
                                                   detail="forced-success attack on the real environment does not reach the goal"))
                print("VIOLATION property=%s replay=%s" % (ID, path))
            return runner.EXIT_VIOLATION
        return code
    except BaseException as e:
        import traceback
        traceback.print_exc()
        report.errors.append("%s: %s" % (type(e).__name__, e))
        runner.write_evidence(report, mod, False, 0)
        return runner.EXIT_HARNESS
