"""C04 -- progress is monotone, host configuration immutable, reset restores the start.

Step part (real Network.perform_action, every action kind): compromised / reachable / discovered
never drop, access never decreases, every configuration cell (address one-hots, OS, services,
processes, value, discovery value) of the next state equals the state's.  Reset part (real
NASimEnv.reset through the real __init__): from any Inv-state (reset interleaved at an arbitrary point of any
history) and an arbitrary step counter, reset() yields exactly the initial tensor -- no access,
reachable = discovered = public -- unchanged configuration cells and steps == 0.
"""
import z3

from .. import symex as sx
from .. import scen, dyn, stubs
from ..scen import Shape, STATUS
from . import common

import nasim.envs.environment as m_env

ID = "C04"
TECHNIQUE = "symbolic execution of the real perform_action / NASimEnv.reset by z3 proxy values; per-cell equalities and monotonicity decided by the solver; reset from an arbitrary invariant-satisfying state"
needs_reach = True
EXTRA_STUBS = dyn.EXTRA_STUBS
REQUIRED_WITNESSES = ['success_exploit', 'success_privesc', 'success_subnet_scan', 'failure', 'reset']
STUBS, ASSUMPTIONS, BOUNDS = common.STUBS, common.ASSUMPTIONS, common.BOUNDS


def queries(tier, seed=0):
    qs = dyn.base_queries(tier, level='net')
    shapes = {}
    for q in qs:
        shapes[str(q['shape'])] = q['shape']
    for sh in shapes.values():
        for fo in (False, True):
            qs.append(dict(shape=sh, kind='reset', target=[1, 0], level='env', fully_obs=fo))
    return qs


def run(src, q):
    if q['kind'] != 'reset':
        return dyn.run(src, q)
    shape = Shape.from_json(q['shape'])
    w = scen.build_world(src, shape)
    r = dyn.Rec()
    r.q, r.w = q, w
    with stubs.sut():
        env = m_env.NASimEnv(w.scenario, fully_obs=q.get('fully_obs', False))
    r.init_rows = dyn.tensor_rows(env.current_state.tensor)
    r.pre = scen.symbolic_state(w, env.current_state)
    r.st = scen.zstatus(r.pre)
    if src.symbolic:
        sx.assume(scen.inv(w, r.st))      # reset is called from reachable states
        sx.check_feasible()
    env.steps = src.int('steps', 0, None)
    r.pre_rows = dyn.tensor_rows(env.current_state.tensor)
    with stubs.sut():
        ret = env.reset()
    r.ret_is_pair = isinstance(ret, tuple) and len(ret) == 2
    r.post = scen.read_status(w, env.current_state)
    r.post_rows = dyn.tensor_rows(env.current_state.tensor)
    r.steps1 = sx.znum(env.steps)
    return r


def config_cols():
    lay = scen.code_layout()
    status = set(lay['comp'] + lay['reach'] + lay['disc'] + lay['acc'])
    return [j for j in range(lay['size']) if j not in status]


def obligations(r):
    w = r.w
    obl = []
    cols = config_cols()
    if r.q['kind'] == 'reset':
        obl.append(('reset_restores_initial_status', scen.initial(w, r.post)))
        obl.append(('reset_keeps_configuration', common.rows_equal(r.pre_rows, r.post_rows, cols)))
        obl.append(('reset_equals_first_initial_state', common.rows_equal(r.init_rows, r.post_rows)))
        obl.append(('reset_zeroes_step_counter', r.steps1 == 0))
        obl.append(('reset_returns_obs_info_pair', z3.BoolVal(r.ret_is_pair)))
        return obl
    st, post = r.st, r.post
    mono = []
    for a in w.addrs:
        for k in STATUS:
            mono.append(post[a][k] >= st[a][k])
    obl.append(('status_monotone', z3.And(mono)))
    obl.append(('configuration_immutable', common.rows_equal(r.pre_rows, r.post_rows, cols)))
    return obl


def witnesses(r):
    if r.q['kind'] == 'reset':
        return ['reset']
    return common.outcome_witnesses(r)


def describe(r):
    if r.q['kind'] == 'reset':
        return dict(kind='reset', post={str(a): {k: str(z3.simplify(v)) for k, v in d.items()}
                                        for a, d in r.post.items()}, steps=str(z3.simplify(r.steps1)))
    return common.describe(r)

prefer = common.prefer
