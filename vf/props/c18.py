"""C18 -- malformed scenario files are rejected.

One harness per rule of the catalogue in the property statement.  A valid base document (the two
skeletons and the nine shipped files) gets exactly that rule broken; numeric rules are broken
*symbolically* (prob < 0 or > 1, cost <= 0, scan cost < 0, step limit <= 0, sensitive value <= 0,
subnet size <= 0, topology entry not in {0,1}, host value != declared sensitive value: the leaf
ranges over all violating values), structural rules are finite document edits.  Every path of the
real ScenarioLoader.load must end in an exception (any type: the property says "raises an error");
a path that returns a Scenario is the violation, replayed through a real YAML file.  Rejections
seen on the symbolic side are cross-checked on the real code with a model of the path.
"""
import copy

import z3

from .. import symex as sx
from .. import loaderh, dyn, stubs, scen

import nasim.scenarios.utils as u

ID = "C18"
TECHNIQUE = "symbolic execution of the real ScenarioLoader.load on documents with one documented rule broken (violating leaf ranges over all violating values as a solver variable); every path must raise; replay through a real YAML file"
needs_reach = False
EXTRA_STUBS = loaderh.EXTRA_STUBS
REQUIRED_WITNESSES = ['allowed_exception', 'rejection_confirmed_on_real_code']
STUBS = ["nasim.scenarios.utils.load_yaml -> returns the harness' document (real file + PyYAML in the replay)",
         "int/float/bool/isinstance/type/min/max/math.isclose -> virtual builtins that keep proxies symbolic"]
ASSUMPTIONS = ["catalogue = the rules listed in the property statement, one violated at a time",
               "base documents: skeleton A (tiny-like), skeleton B (2 services/OS/processes, subnets [2,1]) and the nine shipped files"]
BOUNDS = dict(quick="every catalogue rule x skeletons A, B; the numeric rules additionally on tiny, small-honeypot, medium-multi-site",
              thorough="every catalogue rule x skeletons A, B and the nine shipped files")

REQUIRED = [u.SUBNETS, u.TOPOLOGY, u.SENSITIVE_HOSTS, u.OS, u.SERVICES, u.PROCESSES, u.EXPLOITS,
            u.PRIVESCS, u.SERVICE_SCAN_COST, u.SUBNET_SCAN_COST, u.OS_SCAN_COST, u.PROCESS_SCAN_COST,
            u.HOST_CONFIGS, u.FIREWALL]
SCAN_KEYS = [u.SERVICE_SCAN_COST, u.SUBNET_SCAN_COST, u.OS_SCAN_COST, u.PROCESS_SCAN_COST]


def _first(d):
    return next(iter(d))


def _nonpos_int(src, name):
    return src.int(name, None, 0)


def _nonpos_num(src, name, q):
    if q.get('numtype') == 'int':
        return src.int(name, None, 0)
    v = src.real(name, None, 0)
    return v


def _outside01(src, name):
    v = src.real(name, -5, 5)
    if src.symbolic:
        sx.assume(z3.Or(sx.znum(v) < 0, sx.znum(v) > 1))
    return v


def _sens_host_with_cfg(doc):
    k = _first(doc[u.SENSITIVE_HOSTS])
    a = eval(k)
    for hk in doc[u.HOST_CONFIGS]:
        if eval(hk) == a:
            return k, hk
    raise RuntimeError("sensitive host without configuration")


def apply_rule(rule, doc, src, q):
    """break exactly one rule of the catalogue in a valid document"""
    kind, _, arg = rule.partition(':')
    E, PE = doc[u.EXPLOITS], doc[u.PRIVESCS]
    HC, FW, SH = doc[u.HOST_CONFIGS], doc[u.FIREWALL], doc[u.SENSITIVE_HOSTS]
    services, oss, procs = doc[u.SERVICES], doc[u.OS], doc[u.PROCESSES]
    if kind == 'missing_section':
        del doc[arg]
    elif kind == 'unknown_section':
        doc['bogus_section'] = 1
    elif kind == 'mistyped_section':
        v = doc[arg] if arg in doc else 1000
        doc[arg] = {} if isinstance(v, list) else ([] if isinstance(v, dict) else 'one')
    elif kind == 'empty_subnets':
        doc[u.SUBNETS] = []
    elif kind == 'nonpositive_subnet':
        doc[u.SUBNETS][0] = _nonpos_int(src, 'bad_size')
    elif kind == 'topology_missing_row':
        doc[u.TOPOLOGY].pop()
    elif kind == 'topology_extra_row':
        doc[u.TOPOLOGY].append(list(doc[u.TOPOLOGY][-1]))
    elif kind == 'topology_short_row':
        doc[u.TOPOLOGY][1] = doc[u.TOPOLOGY][1][:-1]
    elif kind == 'topology_long_row':
        doc[u.TOPOLOGY][1] = doc[u.TOPOLOGY][1] + [0]
    elif kind == 'topology_row_not_list':
        doc[u.TOPOLOGY][1] = 1
    elif kind == 'topology_bad_entry':
        v = src.int('bad_entry', -3, 5)
        if src.symbolic:
            sx.assume(z3.And(sx.znum(v) != 0, sx.znum(v) != 1))
        n = len(doc[u.TOPOLOGY])
        doc[u.TOPOLOGY][n - 1][0] = v      # an off-diagonal entry not needed by any rule below
    elif kind == 'empty_list':
        doc[arg] = []
    elif kind == 'duplicate_in_list':
        doc[arg] = list(doc[arg]) + [doc[arg][0]]
    elif kind == 'sens_invalid_subnet_zero':
        SH['(0, 0)'] = 10
    elif kind == 'sens_invalid_subnet_high':
        SH['(%d, 0)' % (len(doc[u.SUBNETS]) + 2)] = 10
    elif kind == 'sens_invalid_host_high':
        SH['(1, %d)' % doc[u.SUBNETS][0]] = 10
    elif kind == 'sens_invalid_host_negative':
        SH['(1, -1)'] = 10
    elif kind == 'sens_duplicate':
        # the same address spelled differently (the only way a YAML mapping can repeat a key)
        keys = list(SH)
        k = keys[int(arg[0])] if arg and int(arg[0]) < len(keys) else keys[-1]
        a = eval(k)
        spelling = {'a': '(%d,%d)', 'b': '( %d, %d)', 'c': '(%d,  %d)', 'd': '(%d, %d )'}[arg[1] if arg else 'a'] % a
        if spelling == k:
            spelling = '(%d , %d)' % a
        SH[spelling] = SH[k]
    elif kind == 'sens_nonpositive_value':
        SH[_first(SH)] = _nonpos_num(src, 'bad_value', q)
    elif kind == 'sens_nonnumeric_value':
        SH[_first(SH)] = 'high'
    elif kind == 'exploit_missing_field':
        del E[_first(E)][arg]
    elif kind == 'exploit_unknown_service':
        E[_first(E)][u.EXPLOIT_SERVICE] = 'no_such_service'
    elif kind == 'exploit_unknown_os':
        E[_first(E)][u.EXPLOIT_OS] = 'no_such_os'
    elif kind == 'exploit_prob_outside':
        E[_first(E)][u.EXPLOIT_PROB] = _outside01(src, 'bad_prob')
    elif kind == 'exploit_nonpositive_cost':
        E[_first(E)][u.EXPLOIT_COST] = _nonpos_num(src, 'bad_cost', q)
    elif kind == 'exploit_invalid_access':
        E[_first(E)][u.EXPLOIT_ACCESS] = {'admin': 'admin', '0': 0, '3': 3}[arg]
    elif kind == 'privesc_missing_field':
        del PE[_first(PE)][arg]
    elif kind == 'privesc_unknown_process':
        PE[_first(PE)][u.PRIVESC_PROCESS] = 'no_such_process'
    elif kind == 'privesc_unknown_os':
        PE[_first(PE)][u.PRIVESC_OS] = 'no_such_os'
    elif kind == 'privesc_prob_outside':
        PE[_first(PE)][u.PRIVESC_PROB] = _outside01(src, 'bad_prob')
    elif kind == 'privesc_nonpositive_cost':
        PE[_first(PE)][u.PRIVESC_COST] = _nonpos_num(src, 'bad_cost', q)
    elif kind == 'privesc_invalid_access':
        PE[_first(PE)][u.PRIVESC_ACCESS] = {'admin': 'admin', '0': 0, '3': 3}[arg]
    elif kind == 'negative_scan_cost':
        if q.get('numtype') == 'int':
            doc[arg] = src.int('bad_scan', None, -1)
        else:
            v = src.real('bad_scan', None, None)
            if src.symbolic:
                sx.assume(sx.znum(v) < 0)
            doc[arg] = v
    elif kind == 'host_missing':
        del HC[list(HC)[-1]]
    elif kind == 'host_superfluous':
        HC['(1, %d)' % (doc[u.SUBNETS][0] + 5)] = copy.deepcopy(HC[_first(HC)])     # a host that does not exist
    elif kind == 'host_unknown_service':
        HC[_first(HC)][u.HOST_SERVICES] = list(HC[_first(HC)][u.HOST_SERVICES]) + ['no_such_service']
    elif kind == 'host_duplicate_service':
        HC[_first(HC)][u.HOST_SERVICES] = [services[0], services[0]]
    elif kind == 'host_unknown_process':
        HC[_first(HC)][u.HOST_PROCESSES] = ['no_such_process']
    elif kind == 'host_duplicate_process':
        HC[_first(HC)][u.HOST_PROCESSES] = [procs[0], procs[0]]
    elif kind == 'host_unknown_os':
        HC[_first(HC)][u.HOST_OS] = 'no_such_os'
    elif kind == 'host_missing_key':
        del HC[_first(HC)][arg]
    elif kind == 'host_fw_not_dict':
        HC[_first(HC)][u.HOST_FIREWALL] = [services[0]]
    elif kind == 'host_fw_bad_address':
        HC[_first(HC)][u.HOST_FIREWALL] = {{'far': '(9, 9)', 'text': 'abc', 'neg': '(1, -1)', 'inet': '(0, 0)'}[arg]: [services[0]]}
    elif kind == 'host_fw_unknown_service':
        HC[_first(HC)][u.HOST_FIREWALL] = {list(HC)[-1]: ['no_such_service']}
    elif kind == 'host_fw_duplicate_service':
        HC[_first(HC)][u.HOST_FIREWALL] = {list(HC)[-1]: [services[0], services[0]]}
    elif kind == 'host_fw_not_list':
        HC[_first(HC)][u.HOST_FIREWALL] = {list(HC)[-1]: services[0]}
    elif kind == 'host_value_nonnumeric':
        HC[_first(HC)][u.HOST_VALUE] = 'much'
    elif kind == 'host_value_contradicts_sensitive':
        sk, hk = _sens_host_with_cfg(doc)
        # both the declared value (any size up to 10^6) and the contradicting one are symbolic;
        # they differ by at least 1: far outside any floating-point tolerance
        decl = src.real('declared_value', 1, 1000000)
        v = src.real('bad_host_value', -1000000, 1000000)
        SH[sk] = decl
        if src.symbolic:
            d = sx.znum(v) - sx.znum(decl)
            sx.assume(z3.Or(d >= 1, d <= -1))
        HC[hk][u.HOST_VALUE] = v
    elif kind == 'fw_missing_rule':
        keys = list(FW)
        if arg == 'reverse':
            k = [x for x in keys if eval(x)[0] > eval(x)[1]][0]
        elif arg == 'last':
            k = keys[-1]
        else:
            k = keys[0]
        del FW[k]
    elif kind == 'fw_not_list':
        FW[_first(FW)] = services[0]
    elif kind == 'fw_duplicate_service':
        FW[_first(FW)] = [services[0], services[0]]
    elif kind == 'fw_unknown_service':
        FW[_first(FW)] = ['no_such_service']
    elif kind == 'nonpositive_step_limit':
        doc[u.STEP_LIMIT] = _nonpos_int(src, 'bad_limit')
    else:
        raise RuntimeError("unknown rule " + rule)


NUMERIC = ['nonpositive_subnet', 'topology_bad_entry', 'sens_nonpositive_value', 'exploit_prob_outside',
           'exploit_nonpositive_cost', 'privesc_prob_outside', 'privesc_nonpositive_cost',
           'nonpositive_step_limit', 'host_value_contradicts_sensitive'] + \
          ['negative_scan_cost:' + k for k in SCAN_KEYS]


def catalogue():
    rules = ['missing_section:' + k for k in REQUIRED] + ['unknown_section']
    rules += ['mistyped_section:' + k for k in REQUIRED + [u.STEP_LIMIT]]
    rules += ['empty_subnets', 'topology_missing_row', 'topology_extra_row', 'topology_short_row',
              'topology_long_row', 'topology_row_not_list']
    rules += ['empty_list:' + k for k in (u.OS, u.SERVICES, u.PROCESSES)]
    rules += ['duplicate_in_list:' + k for k in (u.OS, u.SERVICES, u.PROCESSES)]
    rules += ['sens_invalid_subnet_zero', 'sens_invalid_subnet_high', 'sens_invalid_host_high',
              'sens_invalid_host_negative', 'sens_nonnumeric_value']
    rules += ['sens_duplicate:%d%s' % (i, sp) for i in (0, 1) for sp in 'abcd']
    rules += ['exploit_missing_field:' + k for k in (u.EXPLOIT_SERVICE, u.EXPLOIT_OS, u.EXPLOIT_PROB, u.EXPLOIT_COST, u.EXPLOIT_ACCESS)]
    rules += ['exploit_unknown_service', 'exploit_unknown_os'] + ['exploit_invalid_access:' + a for a in ('admin', '0', '3')]
    rules += ['privesc_missing_field:' + k for k in (u.PRIVESC_PROCESS, u.PRIVESC_OS, u.PRIVESC_PROB, u.PRIVESC_COST, u.PRIVESC_ACCESS)]
    rules += ['privesc_unknown_process', 'privesc_unknown_os'] + ['privesc_invalid_access:' + a for a in ('admin', '0', '3')]
    rules += ['host_missing', 'host_superfluous', 'host_unknown_service', 'host_duplicate_service',
              'host_unknown_process', 'host_duplicate_process', 'host_unknown_os',
              'host_fw_not_dict', 'host_fw_unknown_service', 'host_fw_duplicate_service',
              'host_fw_not_list', 'host_value_nonnumeric']
    rules += ['host_missing_key:' + k for k in (u.HOST_OS, u.HOST_SERVICES, u.HOST_PROCESSES)]
    rules += ['host_fw_bad_address:' + a for a in ('far', 'text', 'neg', 'inet')]
    rules += ['fw_missing_rule:first', 'fw_missing_rule:reverse', 'fw_missing_rule:last', 'fw_not_list',
              'fw_duplicate_service', 'fw_unknown_service']
    return rules + NUMERIC


def queries(tier, seed=0):
    from nasim.scenarios.benchmark import AVAIL_STATIC_BENCHMARKS
    qs = []
    for rule in catalogue():
        for sk in ('A', 'B'):
            for nt in (('float', 'int') if rule in NUMERIC else ('float',)):
                qs.append(dict(kind='skel', skel=sk, numtype=nt, sym=[], picks=[], rule=rule))
        files = list(AVAIL_STATIC_BENCHMARKS) if tier != 'quick' else \
            (['tiny', 'small-honeypot', 'medium-multi-site'] if rule in NUMERIC else
             (['tiny', 'medium-single-site'] if rule.startswith(('sens_duplicate', 'fw_missing_rule')) else []))
        for f in files:
            qs.append(dict(kind='shipped', file=f, numtype='float', rule=rule))
    return qs


def base_doc(src, q):
    if q['kind'] == 'skel':
        doc, _ = loaderh.skeleton(src, q)
        return doc
    import yaml
    from nasim.scenarios.benchmark import AVAIL_STATIC_BENCHMARKS
    with open(AVAIL_STATIC_BENCHMARKS[q['file']]['file']) as f:
        return yaml.load(f, Loader=yaml.FullLoader)


def run(src, q):
    r = dyn.Rec()
    r.q = q
    doc = base_doc(src, q)
    apply_rule(q['rule'], doc, src, q)
    r.sc = loaderh.load(src, doc)       # raising is the expected outcome (SutException)
    return r


def exception_allowed(q, exc):
    return True


def obligations(r):
    # reaching this point means the loader returned a scenario for a malformed document
    return [('malformed_document_rejected', z3.BoolVal(False))]


def witnesses(r):
    return ['accepted_malformed']


def cross_check(q, model):
    """called by the worker (injection switched off) for rejecting paths: the real loader must
    reject the concretised document as well, otherwise the symbolic rejection was an artefact"""
    src = scen.ConcSource(model)
    try:
        run(src, q)
    except stubs.SutException:
        return True
    return False


def describe(r):
    return dict(rule=r.q['rule'], accepted=True)
