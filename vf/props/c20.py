"""C20 -- the advertised score upper bound really bounds goal-reaching episodes.

(1) hops: the real get_minimal_hops_to_goal runs under the array model on every symmetric,
reflexive topology of n subnets (internet included) -- the adjacency bits are solver variables,
each decided by the solver where the code branches on it -- and every non-empty set of sensitive
subnets that the internet can reach.  Obligation per path: hops <= |X| + (sensitive hosts sharing
a subnet) for EVERY set X of subnets that contains the sensitive subnets and is connected to the
internet inside X, i.e. hops never exceeds the smallest number of hosts that must be compromised.
(2) bound: NASimEnv.get_score_upper_bound() == sum(sensitive values) + sum(discovery values) -
hops as a term identity over symbolic values.
The first sentence of the property follows from (1), (2), C05 (reward accounting) and C02/C03 (a
non-public subnet is discovered only by a scan, cost >= 1, run on a compromised host): with every
cost >= 1 and non-sensitive values <= 1 every compromised non-sensitive host gains <= 1 and costs
>= 1, and the compromised hosts of a goal-reaching episode form a valid X, so the return is at
most sum(sensitive) + sum(discovery) - |X| <= bound.  Side conditions (assumptions): costs >= 1,
non-sensitive values <= 1, discovery values >= 0.
Replay: the real function on the concrete topology against a brute-force minimum over all X;
where possible also an episode on the real environment whose return exceeds the advertised bound.
"""
import itertools

import z3

from .. import symex as sx
from .. import scen, spec, dyn, stubs, npmodel
from ..scen import Shape

import nasim.envs.utils as m_utils
import nasim.envs.environment as m_env

ID = "C20"
TECHNIQUE = "symbolic execution of the real get_minimal_hops_to_goal / get_score_upper_bound by z3 proxy values over all topologies of the bounded size (adjacency bits as solver variables); minimum connecting set as oracle; replay on the real function and by an episode on the real environment"
needs_reach = True
EXTRA_STUBS = dyn.EXTRA_STUBS
REQUIRED_WITNESSES = ['hops', 'bound', 'branching_topology', 'premise']


def prefer(r):
    from . import common
    return common.prefer(r) if r.q.get('premise') else []
STUBS = ["np -> vf.npmodel array model (int16 cells hold real numpy.int16 scalars)",
         "int/float/bool/isinstance/min/max/type -> virtual builtins"]
ASSUMPTIONS = ["topology symmetric and reflexive (documented); every sensitive subnet reachable from the internet node",
               "first sentence derived from the hop obligation under: every action costs >= 1, non-sensitive host values <= 1, discovery values >= 0 (see module docstring)"]
BOUNDS = dict(quick="all topologies of <= 5 subnets incl. internet (<= 1024 each), every non-empty sensitive subnet set, plus two sensitive hosts sharing a subnet",
              thorough="all topologies of <= 6 subnets incl. internet, sensitive sets of size <= 3")


def queries(tier, seed=0):
    qs = []
    ns = [3, 4, 5] if tier == 'quick' else [3, 4, 5, 6]
    for n in ns:
        subs = list(range(1, n))
        for k in range(1, len(subs) + 1):
            if n == 6 and k > 3:
                continue
            for S in itertools.combinations(subs, k):
                qs.append(dict(kind='hops', n=n, sens=[[s, 0] for s in S], no_reach=True))
        qs.append(dict(kind='hops', n=n, sens=[[n - 1, 0], [n - 1, 1], [1, 0]], no_reach=True))
    for sz in ([1, 1], [1, 1, 1], [2, 1, 1]):
        qs.append(dict(kind='bound', shape=Shape(sz, 1, 1, 1).to_json(), sens=[[len(sz), 0]], no_reach=True))
        qs.append(dict(kind='bound', shape=Shape(sz, 1, 1, 1).to_json(), sens=[[1, 0], [len(sz), 0]], no_reach=True))
    # the premises of the derivation of the first sentence (module docstring), on a small shape:
    # every value is paid at most once (value only on the step that first obtains ROOT / first
    # discovers, status monotone) and every step pays its cost
    for q in dyn.base_queries('quick', level='gen', kinds=('exploit', 'privesc', 'subnet_scan')):
        if q['shape']['sizes'] == [2, 1] and q.get('os') is None:
            d = dict(q)
            d['kind0'] = d['kind']
            d['premise'] = True
            qs.append(d)
    return qs


def topo(src, n):
    T = [[None] * n for _ in range(n)]
    for i in range(n):
        for j in range(i, n):
            if i == j:
                T[i][j] = 1
            else:
                b = src.bit("top_%d_%d" % (i, j))
                T[i][j] = b
                T[j][i] = b
    return T


def reach_formula(T, n, target):
    """target reachable from node 0 (unrolled closure)"""
    R = [z3.BoolVal(i == 0) for i in range(n)]
    for _ in range(n):
        R = [z3.Or(R[v], z3.Or([z3.And(R[w], sx.znum(T[w][v]) == 1) for w in range(n) if w != v]))
             for v in range(n)]
    return R[target]


def min_connect(adj, n, sens_subnets):
    """brute force: smallest X (subsets of 1..n-1) containing the sensitive subnets such that
    X + internet is connected"""
    others = [s for s in range(1, n) if s not in sens_subnets]
    for k in range(len(others) + 1):
        for extra in itertools.combinations(others, k):
            X = set(sens_subnets) | set(extra)
            seen = {0}
            stack = [0]
            while stack:
                v = stack.pop()
                for w_ in X:
                    if w_ not in seen and adj[v][w_]:
                        seen.add(w_)
                        stack.append(w_)
            if X <= seen:
                return len(X), sorted(X)
    return None, None


def run(src, q):
    if q.get('premise'):
        return dyn.run(src, q)
    r = dyn.Rec()
    r.q = q
    if q['kind'] == 'bound':
        shape = Shape.from_json(q['shape'])
        w = scen.build_world(src, shape, sens=[tuple(a) for a in q['sens']], host_fw=False)
        r.w = w
        if src.symbolic:
            for a in q['sens']:
                sx.assume(reach_formula(w.T, w.n, a[0]))
        with stubs.sut():
            env = m_env.NASimEnv(w.scenario)
            r.bound = env.get_score_upper_bound()
            r.hops = env.get_minimum_hops()
        return r
    n = q['n']
    T = topo(src, n)
    sens = [tuple(a) for a in q['sens']]
    # the solver decides every adjacency bit (one fork per bit, 2^(n(n-1)/2) topologies); inputs
    # whose sensitive subnets the internet cannot reach are outside the documented domain
    adj = [[True if i == j else None for j in range(n)] for i in range(n)]
    for i in range(n):
        for j in range(i + 1, n):
            adj[i][j] = adj[j][i] = bool(T[i][j] == 1)
    best, X = min_connect(adj, n, sorted(set(a[0] for a in sens)))
    if best is None:
        raise sx.Cut("sensitive subnet not connected to the internet")
    r.adj, r.n, r.sens, r.best, r.X = adj, n, sens, best, X
    with stubs.sut():
        r.hops = m_utils.get_minimal_hops_to_goal(T, sens)
    # the same question through the public API (Network.get_minimal_hops / NASimEnv.get_minimum_hops
    # use the scenario's topology), after another network with the same subnets and sensitive
    # hosts but a chain topology has been asked: the answer must not depend on earlier networks
    import nasim.envs.network as m_net

    def mk(topology):
        # a real Scenario object (hosts with one service, permissive firewalls)
        import nasim.scenarios.utils as u
        from nasim.scenarios.scenario import Scenario
        from nasim.scenarios.host import Host
        sizes = [1] + [max([a[1] for a in sens if a[0] == s] + [0]) + 1 for s in range(1, n)]
        hosts = {(s, h): Host((s, h), {'os': True}, {'srv': True}, {'proc': True}, {},
                              value=10.0 if (s, h) in sens else 0.0)
                 for s in range(1, n) for h in range(sizes[s])}
        sd = {u.SUBNETS: sizes, u.TOPOLOGY: topology, u.OS: ['os'], u.SERVICES: ['srv'], u.PROCESSES: ['proc'],
              u.SENSITIVE_HOSTS: {a: 10.0 for a in sens}, u.EXPLOITS: {}, u.PRIVESCS: {},
              u.OS_SCAN_COST: 1, u.SERVICE_SCAN_COST: 1, u.SUBNET_SCAN_COST: 1, u.PROCESS_SCAN_COST: 1,
              u.FIREWALL: {}, u.HOSTS: hosts, u.STEP_LIMIT: None}
        return Scenario(sd, name='c20')
    chain = [[1 if abs(i - j) <= 1 else 0 for j in range(n)] for i in range(n)]
    r.hops_api = None
    if n <= 5:          # the API variant doubles the work: not for the 32 768 topologies of 6 subnets
        with stubs.sut():
            m_net.Network(mk(chain)).get_minimal_hops()
            r.hops_api = m_net.Network(mk(T)).get_minimal_hops()
    return r


def obligations(r):
    q = r.q
    if q.get('premise'):
        from . import c05
        from ..scen import STATUS
        obl = [('premise_' + n, f) for n, f in c05.obligations(r)]
        mono = [r.post[a][k] >= r.st[a][k] for a in r.w.addrs for k in STATUS]
        obl.append(('premise_status_monotone', z3.And(mono)))
        return obl
    if q['kind'] == 'bound':
        w = r.w
        tot = z3.RealVal(0)
        for a in w.sens:
            tot = tot + spec.real(sx.znum(w.val[a]))
        for a in w.addrs:
            tot = tot + spec.real(sx.znum(w.dval[a]))
        hops = spec.real(sx.znum(r.hops))
        return [('bound_is_sensitive_plus_discovery_minus_hops', spec.real(sx.znum(r.bound)) == tot - hops)]
    subnets = sorted(set(a[0] for a in r.sens))
    extra = len(set(r.sens)) - len(subnets)
    best = r.best
    hops = int(r.hops)
    obl = [('hops_at_most_min_hosts_to_compromise', z3.BoolVal(hops <= best + extra))]
    if r.hops_api is not None:
        obl.append(('network_api_hops_at_most_min_hosts_to_compromise', z3.BoolVal(int(r.hops_api) <= best + extra)))
    return obl


def witnesses(r):
    if r.q.get('premise'):
        return ['premise']
    if r.q['kind'] == 'bound':
        return ['bound']
    out = ['hops']
    # a topology where the minimum connecting set is not a simple path through the sensitive subnets
    deg = [sum(1 for j in range(r.n) if j != i and r.adj[i][j]) for i in range(r.n)]
    if len(set(a[0] for a in r.sens)) >= 2 and max(deg) >= 3:
        out.append('branching_topology')
    return out


def describe(r):
    if r.q.get('premise'):
        from . import common
        return common.describe(r)
    if r.q['kind'] == 'bound':
        return dict(bound=str(z3.simplify(sx.znum(r.bound))), hops=str(r.hops))
    d = dict(n=r.n, sensitive=[list(a) for a in r.sens], adjacency=[[int(x) for x in row] for row in r.adj],
             advertised_hops=int(r.hops), min_hosts=r.best, a_minimum_set=r.X)
    ep = episode(r)
    if ep:
        d['episode'] = ep
    return d


def episode(r):
    """build the scenario of the counterexample (every host vulnerable, permissive firewalls, unit
    costs, non-sensitive hosts worth 1) and run the attack that compromises exactly X on the real
    environment; report return vs advertised bound"""
    try:
        import nasim.scenarios.utils as u
        from nasim.scenarios.scenario import Scenario
        from nasim.scenarios.host import Host
        import nasim.envs.action as m_act
        n = r.n
        sens = sorted(set(r.sens))
        sizes = [1] + [max([a[1] for a in sens if a[0] == s] + [0]) + 1 for s in range(1, n)]
        hosts = {}
        for s in range(1, n):
            for h in range(sizes[s]):
                a = (s, h)
                hosts[a] = Host(a, {'os': True}, {'srv': True}, {'proc': True}, {},
                                value=100.0 if a in sens else 1.0, discovery_value=0.0)
        fw = {(i, j): ['srv'] for i in range(n) for j in range(n) if i != j and r.adj[i][j]}
        sd = {u.SUBNETS: sizes, u.TOPOLOGY: [[int(x) for x in row] for row in r.adj], u.OS: ['os'],
              u.SERVICES: ['srv'], u.PROCESSES: ['proc'],
              u.SENSITIVE_HOSTS: {a: 100.0 for a in sens},
              u.EXPLOITS: {'e': {u.EXPLOIT_SERVICE: 'srv', u.EXPLOIT_OS: None, u.EXPLOIT_PROB: 1.0,
                                 u.EXPLOIT_COST: 1, u.EXPLOIT_ACCESS: 2}},
              u.PRIVESCS: {}, u.OS_SCAN_COST: 1, u.SERVICE_SCAN_COST: 1, u.SUBNET_SCAN_COST: 1,
              u.PROCESS_SCAN_COST: 1, u.FIREWALL: fw, u.HOSTS: hosts, u.STEP_LIMIT: None}
        env = m_env.NASimEnv(Scenario(sd, name='c20'))
        bound = float(env.get_score_upper_bound())
        X = set(r.X)
        total = 0.0
        done = False
        comp = set()
        frontier = [s for s in X if r.adj[0][s]]
        order = []
        seen = set(frontier)
        while frontier:
            s = frontier.pop(0)
            order.append(s)
            for t in sorted(X):
                if t not in seen and r.adj[s][t]:
                    seen.add(t)
                    frontier.append(t)
        trace = []
        with stubs.ScriptedRand([], default=0.0):
            for s in order:
                targets = [a for a in sens if a[0] == s] or [(s, 0)]
                for a in targets:
                    act = [x for x in env.action_space.actions if x.is_exploit() and x.target == a][0]
                    _, rew, done, _, info = env.step(act)
                    total += float(rew)
                    trace.append("exploit%s -> %s" % (list(a), float(rew)))
                if any(not env.current_state.host_discovered((t, 0)) for t in X) and not done:
                    scan = [x for x in env.action_space.actions if x.is_subnet_scan() and x.target == targets[0]][0]
                    _, rew, done, _, info = env.step(scan)
                    total += float(rew)
                    trace.append("subnet_scan%s -> %s" % (list(targets[0]), float(rew)))
        return dict(advertised_bound=bound, episode_return=total, goal_reached=bool(done),
                    exceeds_bound=bool(done and total > bound), actions=trace)
    except Exception as e:       # the episode is a best-effort demonstration
        return dict(error=repr(e))
