"""C13 -- the generative step is pure and agrees with step.

One path = generative_step(x, a) followed (draw stream rewound, so the same draw) by step(a) on the
real NASimEnv.  x is the current state object or a different State object.  Obligations:
every cell of x.tensor, env.current_state.tensor and env.last_obs.tensor is the same term after the
generative step as before (solver-decided per cell), the objects installed in the environment are
the same objects, env.steps is unchanged, and the returned next state shares no storage with x
(buffer identity in the array model, numpy.shares_memory in the replay).  step(a) with the same
draw returns the same next-state cells, observation cells, reward, terminal flag and info fields,
and env.current_state is then exactly that next state.
"""
import numpy as _np
import z3

from .. import symex as sx
from .. import scen, spec, dyn, stubs, npmodel
from ..scen import Shape
from . import common

import nasim.envs.environment as m_env

ID = "C13"
TECHNIQUE = "symbolic execution of the real generative_step then step (same symbolic draw) by z3 proxy values; per-cell purity obligations; storage identity tracked in the array model; counterexample replay with numpy.shares_memory"
needs_reach = True
from .. import loaderh as _loaderh
EXTRA_STUBS = dyn.EXTRA_STUBS + _loaderh.EXTRA_STUBS
REQUIRED_WITNESSES = ['success_exploit', 'success_subnet_scan', 'failure', 'other_state', 'current_state', 'loaded_repeat']
STUBS, ASSUMPTIONS = common.STUBS, common.ASSUMPTIONS
BOUNDS = dict(quick="shapes [1,1],[2,1]; S=2,O=2,P=1; every action kind on first/last host; x = current state and x = a different State object (arbitrary Inv-state)",
              thorough="adds [1,1,1],[1,2] (up to three hosts), every target, service and process name")
prefer = common.prefer


def loaded_queries():
    # skeleton B: subnet 1 (two hosts, public) - subnet 2 (one host); the host firewall of (2,0)
    # is solver-selected, so a deny entry for one of the two possible pivots can be decisive
    return [dict(kind='loaded_repeat', skel='B', numtype='float', sym=['hostfw'], picks=[], target=[2, 0],
                 hostfw_on=[2, 0], service=s_, loaded=True) for s_ in ('ssh', 'ftp')]


def run_loaded(src, q):
    """generative_step asked twice and then step(), on an environment built from a loaded file
    whose host firewall is decisive (skeleton: host (1,0) denies the first service from the last
    host; the internet rule is solver-selected)"""
    from .. import loaderh, loaded
    import nasim.envs.action as m_act
    r = dyn.Rec()
    r.q = q
    doc, exp = loaderh.skeleton(src, q)
    sc = loaderh.load(src, doc)
    w = loaded.world_from_document(src, exp, sc)
    r.w = w
    target = tuple(q['target'])
    A = scen.World()
    A.kind, A.target, A.name, A.os = 'exploit', target, q['service'], None
    A.cost, A.req, A.prob, A.grant = 1, 1, 1.0, 2
    A.obj = m_act.Exploit("e_x", target, cost=1, service=A.name, os=None, access=2, prob=1.0)
    r.A = A
    with stubs.sut():
        env = m_env.NASimEnv(sc, fully_obs=True, flat_obs=False)
    r.pre = scen.symbolic_state(w, env.current_state)
    r.st = scen.zstatus(r.pre)
    if src.symbolic:
        sx.assume(scen.inv(w, r.st))
        sx.check_feasible()
    x = env.current_state
    outs = []
    with stubs.ScriptedRand([], default=0.0):
        for _ in range(2):
            with stubs.sut():
                ns, obs, reward, done, info = env.generative_step(x, A.obj)
            outs.append(dict(ns_rows=dyn.tensor_rows(ns.tensor), reward=spec.real(sx.znum(reward)),
                             done=sx.zbool(done), info=info_terms(info)))
        with stubs.sut():
            o2, reward2, done2, lim2, info2 = env.step(A.obj)
        outs.append(dict(ns_rows=dyn.tensor_rows(env.current_state.tensor), reward=spec.real(sx.znum(reward2)),
                         done=sx.zbool(done2), info=info_terms(info2)))
    r.outs = outs
    r.res = dict(success=sx.zbool(info['success']), value=spec.real(sx.znum(info['value'])),
                 conn=sx.zbool(info['connection_error']), perm=sx.zbool(info['permission_error']),
                 undef=sx.zbool(info['undefined_error']))
    r.post = None
    r.ndraws = 0
    return r


def queries(tier, seed=0):
    qs = loaded_queries()
    for q in dyn.base_queries(tier, level='gen'):
        sh = q['shape']['sizes']
        if tier == 'quick' and (len(sh) > 2 or q.get('os') is not None):
            continue
        if tier != 'quick' and (sum(sh) > 3 or q.get('os') not in (None, 'o0')):
            continue        # thorough: up to three hosts, one OS variant (purity does not look at names)
        for other in (False, True):
            d = dict(q)
            d['other_state'] = other
            d['fully_obs'] = bool(other)
            d['flat_obs'] = not other
            qs.append(d)
    return qs


def shares(a, b):
    if isinstance(a, npmodel.SArray):
        return a.buf is b.buf
    return bool(_np.shares_memory(a, b))


def info_terms(info):
    out = {}
    for k, v in info.items():
        if isinstance(v, dict):
            for kk, vv in v.items():
                out["%s[%s]" % (k, kk)] = spec.real(sx.znum(vv))
        else:
            out[k] = spec.real(sx.znum(v))
    return out


def run(src, q):
    if q.get('loaded'):
        return run_loaded(src, q)
    shape = Shape.from_json(q['shape'])
    limit = src.int('limit', 1, None) if not q.get('other_state') else None
    w = scen.build_world(src, shape, step_limit=limit, host_order=q.get('host_order'))
    # costs in eighths (0.125 steps): exact in float32, finer than two decimals
    cost8 = None if q['kind'] == 'noop' else src.quarter('a_cost', 0, 400) / 2
    A = scen.make_action(w, q['kind'], tuple(q['target']), q.get('name'), q.get('os'), cost=cost8)
    r = dyn.Rec()
    r.q, r.w, r.A = q, w, A
    draws = []
    if not src.symbolic:
        i = 0
        while ("u%d" % i) in src.m:
            draws.append(src.real("u%d" % i))
            i += 1
    scripted = stubs.ScriptedRand(draws, default=0.0)
    dyn.scenario_actions(w, A)
    with stubs.sut():
        env = m_env.NASimEnv(w.scenario, fully_obs=q.get('fully_obs', False),
                             flat_obs=q.get('flat_obs', True))
    r.env = env
    # the environment's own current state is an arbitrary Inv-state, too
    r.pre = scen.symbolic_state(w, env.current_state)
    r.st = scen.zstatus(r.pre)
    if q.get('other_state'):
        x = env.current_state.copy()
        r.xpre = scen.symbolic_state(w, x, tag="x")
        r.xst = scen.zstatus(r.xpre)
    else:
        x = env.current_state
        r.xpre, r.xst = r.pre, r.st
    if src.symbolic:
        sx.assume(scen.inv(w, r.st))
        if q.get('other_state'):
            sx.assume(scen.inv(w, r.xst))
        sx.check_feasible()
    env.steps = src.int('steps', 0, None)
    steps0 = sx.znum(env.steps)
    cur0, last0 = env.current_state, env.last_obs
    x_rows0 = dyn.tensor_rows(x.tensor)
    cur_rows0 = dyn.tensor_rows(cur0.tensor)
    last_rows0 = dyn.tensor_rows(last0.tensor)
    from .. import hidden
    skip = {('env', 'np_random'), ('env', '_np_random'), ('env', '_np_random_seed')}
    _ = (w.scenario.exploit_map, w.scenario.privesc_map)
    hobjs = dict(env=env, net=env.network, scenario=w.scenario, action=A.obj)
    before = hidden.snapshot(hobjs, skip)
    r.again = None
    with scripted:
        with stubs.sut():
            ns, obs, reward, done, info = env.generative_step(x, A.obj)
        r.hidden_changed = hidden.diff(before, hidden.snapshot(hobjs, skip))
        pure_now = dict(
            x_rows=(x_rows0, dyn.tensor_rows(x.tensor)),
            cur_rows=(cur_rows0, dyn.tensor_rows(env.current_state.tensor)),
            last_rows=(last_rows0, dyn.tensor_rows(env.last_obs.tensor)),
            same_objects=(env.current_state is cur0 and env.last_obs is last0),
            steps=(steps0, sx.znum(env.steps)),
            shares=shares(ns.tensor, x.tensor),
            ns_is_x=ns is x)
        first_ns_rows = dyn.tensor_rows(ns.tensor)
        first_obs_rows = dyn.tensor_rows(obs.tensor)
        if r.hidden_changed:
            # the generative step left something behind: look ahead on another branch (fresh
            # arbitrary Inv-state, own draw), then ask the same question again with the same draw
            yst = env.current_state.copy()
            ypre = scen.symbolic_state(w, yst, tag="y")
            if src.symbolic:
                sx.assume(scen.inv(w, scen.zstatus(ypre)))
                sx.check_feasible()
                n0 = len(sx.cur().draws)
                sx.cur().notes['draw_ptr'] = n0
            with stubs.sut():
                env.generative_step(yst, A.obj)
            stubs.rewind_draws(scripted)
            with stubs.sut():
                ns_b, obs_b, reward_b, done_b, info_b = env.generative_step(x, A.obj)
            r.again = dict(ns_rows=dyn.tensor_rows(ns_b.tensor), obs_rows=dyn.tensor_rows(obs_b.tensor),
                           reward=spec.real(sx.znum(reward_b)), done=sx.zbool(done_b), info=info_terms(info_b))
        r.g = dict(ns_rows=first_ns_rows, obs_rows=first_obs_rows,
                   reward=spec.real(sx.znum(reward)), done=sx.zbool(done), info=info_terms(info))
        r.pure = pure_now
        r.res = dict(success=sx.zbool(info['success']), value=spec.real(sx.znum(info['value'])),
                     conn=sx.zbool(info['connection_error']), perm=sx.zbool(info['permission_error']),
                     undef=sx.zbool(info['undefined_error']))
        r.post = scen.read_status(w, ns)
        r.ndraws = len(sx.cur().draws) if src.symbolic else scripted.calls
        r.s = None
        if not q.get('other_state'):
            # an unrelated look-ahead on another branch in between (a concrete state in which the
            # attacker holds ROOT everywhere): the agreement of step() with the generative step
            # must not depend on which other states were inspected meanwhile
            z = env.current_state.copy()
            idx = scen.status_idx()
            for a in w.addrs:
                row = z.tensor[w.scenario.host_num_map[a]]
                row[idx['comp']], row[idx['reach']], row[idx['disc']], row[idx['acc']] = 1, 1, 1, 2
            if src.symbolic:
                sx.cur().notes['draw_ptr'] = len(sx.cur().draws) + 5      # its own draws
            with stubs.sut():
                env.generative_step(z, A.obj)
            stubs.rewind_draws(scripted)
            with stubs.sut():
                o2, reward2, done2, lim2, info2 = env.step(A.obj)
            flat = q.get('flat_obs', True)
            r.s = dict(ns_rows=dyn.tensor_rows(env.current_state.tensor),
                       obs_rows=dyn.tensor_rows(env.last_obs.tensor),
                       ret_cells=[sx.znum(c) for c in (o2.cells() if isinstance(o2, npmodel.SArray) else o2.flatten())],
                       ret_shape=tuple(o2.shape),
                       reward=spec.real(sx.znum(reward2)), done=sx.zbool(done2), info=info_terms(info2))
    return r


def obligations(r):
    if r.q.get('loaded'):
        a, b, c = r.outs
        same = lambda x, y: z3.And(common.rows_equal(x['ns_rows'], y['ns_rows']), x['reward'] == y['reward'],
                                   x['done'] == y['done'],
                                   z3.And([x['info'][k] == y['info'][k] for k in x['info']]) if set(x['info']) == set(y['info']) else z3.BoolVal(False))
        return [('generative_step_repeatable_on_loaded_scenario', same(a, b)),
                ('step_agrees_with_generative_step_on_loaded_scenario', same(a, c))]
    obl = []
    p = r.pure
    obl.append(('input_state_not_modified', common.rows_equal(*p['x_rows'])))
    obl.append(('current_state_not_modified', common.rows_equal(*p['cur_rows'])))
    obl.append(('last_observation_not_modified', common.rows_equal(*p['last_rows'])))
    obl.append(('environment_objects_not_replaced', z3.BoolVal(bool(p['same_objects']))))
    obl.append(('step_counter_not_modified', p['steps'][0] == p['steps'][1]))
    obl.append(('next_state_shares_no_storage', z3.BoolVal(not p['shares'] and not p['ns_is_x'])))
    if r.again is not None:
        g, a2 = r.g, r.again
        same_info = set(g['info']) == set(a2['info'])
        obl.append(('generative_step_repeatable_after_other_generative_steps', z3.And(
            common.rows_equal(g['ns_rows'], a2['ns_rows']), common.rows_equal(g['obs_rows'], a2['obs_rows']),
            g['reward'] == a2['reward'], g['done'] == a2['done'],
            z3.And([g['info'][k] == a2['info'][k] for k in g['info']]) if same_info else z3.BoolVal(False))))
    if r.s is not None:
        g, s = r.g, r.s
        obl.append(('step_next_state_equals_generative', common.rows_equal(g['ns_rows'], s['ns_rows'])))
        obl.append(('step_observation_equals_generative', common.rows_equal(g['obs_rows'], s['obs_rows'])))
        flat_cells = [c for row in g['obs_rows'] for c in row]
        same = len(flat_cells) == len(s['ret_cells'])
        obl.append(('step_returned_array_is_that_observation',
                    z3.And([sx._coerce(a, b)[0] == sx._coerce(a, b)[1] for a, b in zip(flat_cells, s['ret_cells'])])
                    if same else z3.BoolVal(False)))
        obl.append(('step_reward_equals_generative', g['reward'] == s['reward']))
        obl.append(('step_done_equals_generative', g['done'] == s['done']))
        keys_same = set(g['info']) == set(s['info'])
        obl.append(('step_info_equals_generative',
                    z3.And([g['info'][k] == s['info'][k] for k in g['info']]) if keys_same else z3.BoolVal(False)))
    return obl


def witnesses(r):
    if r.q.get('loaded'):
        return ['loaded_repeat']
    out = common.outcome_witnesses(r)
    out.append('other_state' if r.q.get('other_state') else 'current_state')
    return out


def describe(r):
    if r.q.get('loaded'):
        m = lambda t: str(z3.simplify(t))
        return dict(outcomes=[dict(reward=m(o['reward']), success=m(o['info']['success'])) for o in r.outs])
    m = lambda t: str(z3.simplify(t))
    return dict(action=r.A.kind, target=list(r.A.target), shares=r.pure['shares'],
                same_objects=r.pure['same_objects'],
                x_before=[[m(c) for c in row] for row in r.pure['x_rows'][0]],
                x_after=[[m(c) for c in row] for row in r.pure['x_rows'][1]])
