"""C10 -- Gymnasium contract: observations in space, every action of the space accepted.

(1) observations: the real NASimEnv (Box modelled as the record (low, high, shape, dtype)) on
scenarios whose host values and discovery values are symbolic with any sign and whose
address-space bounds may be custom; every cell of every reset()/step() observation satisfies
low <= cell <= high for the bounds computed by the real Observation.get_space_bounds; the array
has dtype float32 and the advertised 1-D / 2-D shape, which equals Scenario.get_observation_dims();
reset returns (obs, info) and step (obs, reward, terminated, truncated, info).  In the replay the
real gymnasium Box.contains() is asked.
(2) action types: "what the sampler returns is accepted" is a statement about Python types.  The
index / vector value stays symbolic, the *carrier type* is enumerated: numpy.int64 scalar and int
for the flat space; numpy.ndarray[int64], list and tuple for the parameterised space; env.step on
every carrier must not raise.
"""
import numpy as _np
import z3

from .. import symex as sx
from .. import scen, spec, dyn, stubs, npmodel
from ..scen import Shape
from . import common

import nasim.envs.environment as m_env

ID = "C10"
TECHNIQUE = "symbolic execution of the real NASimEnv.__init__/reset/step and get_space_bounds by z3 proxy values (cell-wise low <= cell <= high); action decoders run on symbolic values carried by each sampler type; replay with the real Box / numpy scalars"
needs_reach = True
EXTRA_STUBS = dyn.EXTRA_STUBS
REQUIRED_WITNESSES = ['obs_step', 'obs_reset', 'carrier_npint', 'carrier_npint32', 'carrier_ndarray', 'carrier_int', 'carrier_list', 'negative_value']
STUBS, ASSUMPTIONS = common.STUBS, common.ASSUMPTIONS
BOUNDS = dict(quick="shapes [1,1],[2,1] with default and custom (+2,+3) address bounds; S=2,O=2,P=1; exploit / subnet scan / process scan on the first host; 4 observation modes; carriers int, numpy.int64, list, tuple, numpy.ndarray",
              thorough="adds [1,1,1],[1,2]; every action kind and target")
prefer = common.prefer


def queries(tier, seed=0):
    qs = []
    sizes = [[1, 1], [2, 1]] + ([[1, 1, 1], [1, 2]] if tier != 'quick' else [])
    for sz in sizes:
        for b in (None, (len(sz) + 3, max(sz) + 3)):
            sh = Shape(sz, 2, 2, 1, b).to_json()
            for fo in (False, True):
                for fob in (True, False):
                    qs.append(dict(kind='reset', shape=sh, fully_obs=fo, flat_obs=fob, target=[1, 0]))
                    kinds = [('exploit', 's1'), ('subnet_scan', None), ('process_scan', None)]
                    if tier != 'quick':
                        kinds += [('privesc', 'p0'), ('service_scan', None), ('os_scan', None), ('noop', None)]
                    for kind, nm in kinds:
                        tg = [[1, 0]] if tier == 'quick' else [list(a) for a in Shape.from_json(sh).addrs]
                        for t in tg:
                            qs.append(dict(kind=kind, name=nm, os=None, shape=sh, fully_obs=fo,
                                           flat_obs=fob, target=t, level='step'))
    for tsh in (Shape([2, 1], 2, 2, 1).to_json(), Shape([1, 2], 2, 2, 1, (5, 4)).to_json()):
        for carrier in ('int', 'npint', 'npint32', 'npuint8'):
            qs.append(dict(kind='types', shape=tsh, flat_actions=True, carrier=carrier, target=[1, 0], no_reach=True))
        for carrier in ('list', 'tuple', 'ndarray'):
            qs.append(dict(kind='types', shape=tsh, flat_actions=False, carrier=carrier, target=[1, 0], no_reach=True))
    return qs


def _space_check(env, o, r, symbolic):
    sp = env.observation_space
    r.space_shape = tuple(sp.shape)
    r.o_shape = tuple(o.shape)
    r.dtype_ok = (o.dtype == _np.float32)
    if isinstance(sp, stubs.BoxModel):
        cells = [sx.znum(c) for c in o.cells()]
        r.in_space = sp.contains_formula(cells)
        r.space_dtype_ok = (sp.dtype == _np.float32)
        r.low, r.high = sx.znum(sp.low), sx.znum(sp.high)
    else:
        r.in_space = z3.BoolVal(bool(sp.contains(o)))
        r.space_dtype_ok = (sp.dtype == _np.float32)
        r.low, r.high = sx.znum(float(sp.low.min())), sx.znum(float(sp.high.max()))


def run(src, q):
    shape = Shape.from_json(q['shape'])
    r = dyn.Rec()
    r.q = q
    if q['kind'] == 'types':
        import nasim.scenarios.utils as u
        # probabilities over the whole documented range [0, 1], boundaries included
        exploits = {'e0': {u.EXPLOIT_SERVICE: 's0', u.EXPLOIT_OS: None, u.EXPLOIT_PROB: src.real('e0_prob', 0, 1),
                           u.EXPLOIT_COST: 1, u.EXPLOIT_ACCESS: 1}}
        privescs = {'pe0': {u.PRIVESC_PROCESS: 'p0', u.PRIVESC_OS: 'o1', u.PRIVESC_PROB: src.real('pe0_prob', 0, 1),
                            u.PRIVESC_COST: 1, u.PRIVESC_ACCESS: 2}}
        w = scen.build_world(src, shape, exploits=exploits, privescs=privescs, host_fw=False,
                             symbolic_values=False)
        r.w = w
        with stubs.sut():
            env = m_env.NASimEnv(w.scenario, flat_actions=q['flat_actions'])
        if q['flat_actions']:
            n = int(env.action_space.n)
            if src.symbolic:
                z = z3.Int('idx')
                sx.assume(z3.And(z >= 0, z <= n - 1))
                npt = dict(npint='int64', npint32='int32', npuint8='uint8').get(q['carrier'])
                idx = sx.SymNpInt(z, npt) if npt else sx.SymNum(z)
            else:
                k = src.int('idx', 0, n - 1)
                npt = dict(npint='int64', npint32='int32', npuint8='uint8').get(q['carrier'])
                idx = getattr(_np, npt)(k) if npt else int(k)
            arg = idx
        else:
            nvec = [int(x) for x in env.action_space.nvec]
            vec = [src.int('v%d' % i, 0, nvec[i] - 1) for i in range(6)]
            if q['carrier'] == 'ndarray':
                if src.symbolic:
                    arg = npmodel.zeros(6, dtype=npmodel.int64)
                    for i, v in enumerate(vec):
                        arg[i] = v
                else:
                    arg = _np.array(vec, dtype=_np.int64)
            else:
                arg = list(vec) if q['carrier'] == 'list' else tuple(vec)
        r.carrier_type = type(arg).__name__
        with stubs.ScriptedRand([], default=0.0):
            with stubs.sut():
                out = env.step(arg)
        r.arity = len(out) if isinstance(out, tuple) else -1
        return r
    w = scen.build_world(src, shape)
    r.w = w
    if q['kind'] == 'reset':
        with stubs.sut():
            env = m_env.NASimEnv(w.scenario, fully_obs=q['fully_obs'], flat_obs=q['flat_obs'])
        r.pre = scen.symbolic_state(w, env.current_state)
        r.st = scen.zstatus(r.pre)
        if src.symbolic:
            sx.assume(scen.inv(w, r.st))
            sx.check_feasible()
        with stubs.sut():
            ret = env.reset()
            r.obs_dims = tuple(w.scenario.get_observation_dims())
        r.arity = len(ret) if isinstance(ret, tuple) else -1
        r.info_is_dict = isinstance(ret[1], dict) if r.arity == 2 else False
        _space_check(env, ret[0], r, src.symbolic)
        return r
    # step
    A = scen.make_action(w, q['kind'], tuple(q['target']), q.get('name'), q.get('os'))
    r.A = A
    dyn.scenario_actions(w, A)
    draws = []
    if not src.symbolic:
        i = 0
        while ("u%d" % i) in src.m:
            draws.append(src.real("u%d" % i))
            i += 1
    with stubs.sut():
        env = m_env.NASimEnv(w.scenario, fully_obs=q['fully_obs'], flat_obs=q['flat_obs'])
    r.pre = scen.symbolic_state(w, env.current_state)
    r.st = scen.zstatus(r.pre)
    if src.symbolic:
        sx.assume(scen.inv(w, r.st))
        sx.check_feasible()
    with stubs.ScriptedRand(draws, default=0.0):
        with stubs.sut():
            ret = env.step(A.obj)
            r.obs_dims = tuple(w.scenario.get_observation_dims())
    r.arity = len(ret) if isinstance(ret, tuple) else -1
    r.info_is_dict = isinstance(ret[4], dict) if r.arity == 5 else False
    if r.arity == 5:
        r.flag_types_ok = all(isinstance(x, (bool, _np.bool_, sx.SymBool)) for x in ret[2:4])
    _space_check(env, ret[0], r, src.symbolic)
    return r


def obligations(r):
    q = r.q
    obl = []
    if q['kind'] == 'types':
        obl.append(('step_returns_five_tuple', z3.BoolVal(r.arity == 5)))
        return obl
    want_arity = 2 if q['kind'] == 'reset' else 5
    obl.append(('gymnasium_tuple_arity', z3.BoolVal(r.arity == want_arity and r.info_is_dict)))
    obl.append(('observation_in_space', r.in_space))
    obl.append(('observation_dtype_float32', z3.BoolVal(bool(r.dtype_ok) and bool(r.space_dtype_ok))))
    dims = r.obs_dims
    want = (dims[0] * dims[1],) if q['flat_obs'] else tuple(dims)
    obl.append(('observation_shape_as_advertised',
                z3.BoolVal(r.o_shape == want and r.space_shape == want)))
    return obl


def witnesses(r):
    q = r.q
    if q['kind'] == 'types':
        return ['carrier_' + q['carrier']]
    out = ['obs_reset' if q['kind'] == 'reset' else 'obs_step']
    w = r.w
    neg = z3.Or([sx.znum(w.val[a]) < 0 for a in w.addrs] + [sx.znum(w.dval[a]) < 0 for a in w.addrs])
    if not sx.valid(z3.Not(neg))[0]:
        out.append('negative_value')
    return out


def describe(r):
    if r.q['kind'] == 'types':
        return dict(carrier=r.carrier_type)
    return dict(o_shape=r.o_shape, space_shape=r.space_shape, low=str(z3.simplify(r.low)),
                high=str(z3.simplify(r.high)))


def entry_point_glue():
    """The public constructors (nasim.generate / make_benchmark / load) must hand the requested
    modes through to the environment: concrete runs (no solver - the constructors only pass
    keyword arguments on), all 8 mode combinations, reset and a few steps each."""
    import itertools
    import nasim
    from nasim.scenarios.benchmark import AVAIL_STATIC_BENCHMARKS
    bad = []
    n = 0
    makers = [('nasim.generate(5, 2, address_space_bounds=(6, 4), base_host_value=-1.5)',
               lambda **kw: nasim.generate(5, 2, address_space_bounds=(6, 4), base_host_value=-1.5, seed=3, **kw)),
              ("nasim.make_benchmark('tiny')", lambda **kw: nasim.make_benchmark('tiny', **kw)),
              ("nasim.make_benchmark('small-gen', seed=1)", lambda **kw: nasim.make_benchmark('small-gen', seed=1, **kw)),
              ("nasim.load(small-honeypot.yaml)", lambda **kw: nasim.load(AVAIL_STATIC_BENCHMARKS['small-honeypot']['file'], **kw))]
    for label, mk in makers:
        for fo, fa, fob in itertools.product((False, True), (True, False), (True, False)):
            n += 1
            try:
                env = mk(fully_obs=fo, flat_actions=fa, flat_obs=fob)
                dims = env.scenario.get_observation_dims()
                want = (dims[0] * dims[1],) if fob else tuple(dims)
                o, info = env.reset()
                outs = [o]
                rng = _np.random.RandomState(5)
                for _ in range(6):
                    a = env.action_space.sample()
                    ret = env.step(a)
                    if not (isinstance(ret, tuple) and len(ret) == 5):
                        bad.append((label, (fo, fa, fob), 'step arity'))
                        break
                    outs.append(ret[0])
                for o in outs:
                    ok = tuple(o.shape) == want and tuple(env.observation_space.shape) == want and \
                        o.dtype == _np.float32 and env.observation_space.contains(o)
                    if not ok:
                        bad.append((label, (fo, fa, fob), 'observation shape %s / space %s / advertised %s / dtype %s / in space %s'
                                    % (tuple(o.shape), tuple(env.observation_space.shape), want, o.dtype,
                                       env.observation_space.contains(o))))
                        break
                isflat = isinstance(env.action_space, __import__('nasim').envs.action.FlatActionSpace)
                if isflat != fa or env.fully_obs != fo or env.flat_obs != fob:
                    bad.append((label, (fo, fa, fob), 'modes not passed through'))
            except Exception as e:      # noqa
                bad.append((label, (fo, fa, fob), 'raised %r' % (e,)))
    return n, bad


def main(tier, seed):
    import sys
    from .. import runner, lockstep
    mod = sys.modules[__name__]
    report = runner.Report(ID, tier, seed)
    try:
        report.validated = lockstep.validate(seed, report)
        runner.explore_all(__name__, queries(tier, seed), report)
        n, bad = entry_point_glue()
        report.extra['entry_point_runs'] = n
        report.validated += n
        code = runner.finish(report, mod)
        if bad:
            for b in bad[:3]:
                path = runner.save_replay(ID, dict(property=ID, obligation='entry_point_passes_modes_through', module=__name__,
                                                   query=dict(constructor=b[0], modes=list(b[1])), model={}, detail=b[2]))
                print("violated obligation: entry_point_passes_modes_through -- %s %s: %s" % (b[0], b[1], b[2]))
                print("VIOLATION property=%s replay=%s" % (ID, path))
            return runner.EXIT_VIOLATION
        return code
    except BaseException as e:
        import traceback
        traceback.print_exc()
        report.errors.append("%s: %s" % (type(e).__name__, e))
        runner.write_evidence(report, mod, False, 0)
        return runner.EXIT_HARNESS
