"""spec -- the declarative step relation Step* and the per-property oracles built on it.

Written from the property statements and docs/source; shares no code with NASim.  Everything is a
z3 formula over the *inputs* of a world (scenario bits, pre-state, action fields, draw), obtained
through znum()/zbool() so the same code evaluates symbolically (exploration) and on constants
(replay).
"""
import z3

from . import symex as sx
from .scen import STATUS, tz, public

zn, zb = sx.znum, sx.zbool
T, F = z3.BoolVal(True), z3.BoolVal(False)


def Or(xs):
    xs = list(xs)
    return z3.Or(xs) if xs else F


def And(xs):
    xs = list(xs)
    return z3.And(xs) if xs else T


class Step:
    """Step*(w, pre, A, u): success condition and expected effects of one action."""

    def __init__(self, w, pre, A, u):
        self.w, self.A = w, A
        st = {a: {k: zn(v) for k, v in d.items()} for a, d in pre.items()}
        self.st = st
        t = A.target
        kind = A.kind
        comp = lambda a: st[a]['comp'] == 1
        acc = lambda a: st[a]['acc']
        self.comp, self.acc = comp, acc
        req = zn(A.req)
        self.noop = kind == 'noop'
        self.conn = z3.And(st[t]['disc'] == 1, st[t]['reach'] == 1)

        def fwin(i, j, srv):
            return zb(w.FW[(i, j)][srv])

        def link_scan(g):
            return tz(w, g[0], t[0])

        def link_exploit(g):
            if g[0] == t[0]:
                return T
            return z3.And(tz(w, g[0], t[0]), fwin(g[0], t[0], A.name))

        def denied(g):
            if g == t or g not in w.deny[t]:
                return F
            return zb(w.deny[t][g][A.name])

        self.pivot = T
        self.traffic = T
        if kind in ('service_scan', 'os_scan'):
            self.pivot = z3.Or(public(w, t[0]),
                               Or(z3.And(comp(g), acc(g) >= req, link_scan(g)) for g in w.addrs))
        if kind == 'exploit':
            self.pivot = z3.Or(public(w, t[0]),
                               Or(z3.And(comp(g), acc(g) >= req, link_exploit(g)) for g in w.addrs))
            self.traffic = z3.Or(
                z3.And(public(w, t[0]), fwin(0, t[0], A.name)),
                Or(z3.And(comp(g), link_exploit(g), z3.Not(denied(g))) for g in w.addrs))

        def osok():
            return T if A.os is None else zb(w.os[t][A.os])

        p = zn(A.prob)
        zu, zp = sx._coerce(zn(u), p) if u is not None else (None, None)
        self.u, self.p = zu, zp
        draw_lt = (zu < zp) if u is not None else T      # the draw certainly succeeds
        draw_le = (zu <= zp) if u is not None else T     # the draw may succeed
        self.draw_lt, self.draw_le = draw_lt, draw_le
        if kind == 'exploit':
            self.hostok = z3.And(zb(w.srv[t][A.name]), osok())
            self.nochance = comp(t)          # re-exploiting a compromised host never fails by chance
        elif kind == 'privesc':
            self.hostok = z3.And(comp(t), acc(t) >= req, zb(w.prc[t][A.name]), osok())
            self.nochance = F
        elif kind in ('subnet_scan', 'process_scan'):
            self.hostok = z3.And(comp(t), acc(t) >= req)
            self.nochance = F
        else:
            self.hostok = T
            self.nochance = F
        self.pre_ok = T if self.noop else z3.And(self.conn, self.pivot, self.traffic, self.hostok)
        # sufficient / necessary conditions for success (boundary u == p left open here; C07 owns it)
        self.must_succeed = T if self.noop else z3.And(self.pre_ok, z3.Or(self.nochance, draw_lt))
        self.may_succeed = T if self.noop else z3.And(self.pre_ok, z3.Or(self.nochance, draw_le))

    # -------- expected effects given the success bit actually reported by the code
    def expected_status(self, succ):
        """status terms the next state must have, as a function of the pre-state and `succ`"""
        w, A, st = self.w, self.A, self.st
        t = A.target
        exp = {}
        for a in w.addrs:
            e = dict(st[a])
            if A.kind == 'exploit':
                if a == t:
                    e['comp'] = z3.If(succ, 1, st[a]['comp'])
                    e['acc'] = z3.If(succ, self.maxacc(), st[a]['acc'])
                e['reach'] = z3.If(z3.And(succ, tz(w, t[0], a[0])), 1, st[a]['reach'])
            elif A.kind == 'privesc':
                if a == t:
                    e['acc'] = z3.If(succ, self.maxacc(), st[a]['acc'])
            elif A.kind == 'subnet_scan':
                e['disc'] = z3.If(z3.And(succ, tz(w, t[0], a[0])), 1, st[a]['disc'])
            exp[a] = e
        return exp

    def maxacc(self):
        g = zn(self.A.grant)
        a = self.st[self.A.target]['acc']
        return z3.If(a >= g, a, g)

    def expected_value(self, succ):
        w, A, st = self.w, self.A, self.st
        t = A.target
        zero = z3.RealVal(0)
        if A.kind in ('exploit', 'privesc'):
            gain = z3.And(succ, st[t]['acc'] < 2, zn(A.grant) == 2)
            v = zn(w.val[t])
            v = z3.ToReal(v) if v.sort() == z3.IntSort() else v
            return z3.If(gain, v, zero)
        if A.kind == 'subnet_scan':
            tot = zero
            for a in w.addrs:
                dv = zn(w.dval[a])
                dv = z3.ToReal(dv) if dv.sort() == z3.IntSort() else dv
                tot = tot + z3.If(z3.And(succ, tz(w, t[0], a[0]), st[a]['disc'] == 0), dv, zero)
            return tot
        return zero


def real(t):
    return z3.ToReal(t) if t.sort() == z3.IntSort() else t


def eq(a, b):
    a, b = sx._coerce(a, b)
    return a == b


def status_equal(w, s1, s2, keys=STATUS):
    return And(eq(s1[a][k], s2[a][k]) for a in w.addrs for k in keys)
