"""npmodel -- explicit model of the ndarray subset NASim uses, with cells that may hold proxies.

1-D / 2-D C-contiguous arrays over a shared buffer object; views for a[i], a[i:j]; copies for
np.copy / .copy() / .flatten().  Buffer identity is first class (C13 needs it).  Concrete cells are
rounded through the real numpy dtype so concrete behaviour (float32 rounding, int16 arithmetic) is
numpy's own.  Validated against real numpy in lock-step before every verdict (see vf/lockstep.py).

This module is injected under the name ``np`` into the nasim modules under test.
"""
import numpy as _np

from . import symex as sx

float32 = _np.float32
float64 = _np.float64
float16 = _np.float16
int64 = _np.int64
int16 = _np.int16
iinfo = _np.iinfo
inf = _np.inf
integer = _np.integer
floating = _np.floating

_BUF_IDS = [0]


class Buf:
    __slots__ = ('cells', 'dtype', 'id', 'writes')

    def __init__(self, n, dtype):
        self.cells = [dtype(0)] * n if dtype is not None else [0] * n
        self.dtype = dtype
        _BUF_IDS[0] += 1
        self.id = _BUF_IDS[0]
        self.writes = 0


def _conv(v, dtype):
    if sx.is_sym(v):
        if isinstance(v, sx.SymBool):
            v = sx.to_num(v)
        if dtype in (int64, int16) and not v.is_int:
            raise sx.EngineUnsupported("real proxy stored into integer array")
        if dtype in (float32, float64, float16) and v.is_int:
            import z3
            v = sx.SymNum(z3.ToReal(v.z))
        return v
    if isinstance(v, SArray):
        raise TypeError("setting an array element with a sequence.")
    return dtype(v)


class SArray:
    """ndarray stand-in"""
    __array_ufunc__ = None

    def __init__(self, buf, shape, offset=0):
        self.buf = buf
        self.shape = tuple(shape)
        self.offset = offset

    @property
    def dtype(self):
        return self.buf.dtype

    @property
    def ndim(self):
        return len(self.shape)

    @property
    def size(self):
        n = 1
        for s in self.shape:
            n *= s
        return n

    def __len__(self):
        return self.shape[0]

    def _rowlen(self):
        n = 1
        for s in self.shape[1:]:
            n *= s
        return n

    def _norm(self, i, n):
        if isinstance(i, (float, _np.floating)):
            raise IndexError("only integers, slices (`:`) ... are valid indices")
        i = int(i)      # concretises a symbolic index (solver-driven split)
        if i < 0:
            i += n
        if not 0 <= i < n:
            raise IndexError("index %d is out of bounds for axis 0 with size %d" % (i, n))
        return i

    def __getitem__(self, k):
        if isinstance(k, tuple):
            if len(k) != self.ndim or self.ndim != 2:
                raise sx.EngineUnsupported("tuple index")
            return self[k[0]][k[1]]
        if isinstance(k, slice):
            s, e, st = k.indices(self.shape[0])
            if st != 1:
                raise sx.EngineUnsupported("strided slice")
            e = max(e, s)
            return SArray(self.buf, (e - s,) + self.shape[1:], self.offset + s * self._rowlen())
        i = self._norm(k, self.shape[0])
        if self.ndim == 1:
            return self.buf.cells[self.offset + i]
        return SArray(self.buf, self.shape[1:], self.offset + i * self._rowlen())

    def _flat_idx(self):
        return range(self.offset, self.offset + self.size)

    def __setitem__(self, k, v):
        if isinstance(k, tuple):
            self[k[0]][k[1]] = v
            return
        if isinstance(k, slice) or self.ndim == 2:
            tgt = self[k]
            idxs = list(tgt._flat_idx())
            if isinstance(v, SArray):
                src = [v.buf.cells[j] for j in v._flat_idx()]
                if len(src) != len(idxs):
                    if tgt.ndim == 2 and v.ndim == 1 and v.shape[0] == tgt.shape[1]:
                        src = src * tgt.shape[0]
                    else:
                        raise ValueError("could not broadcast input array from shape %s into shape %s"
                                         % (v.shape, tgt.shape))
            elif isinstance(v, (list, tuple)):
                src = list(v)
                if len(src) != len(idxs):
                    raise ValueError("could not broadcast input array")
            else:
                src = [v] * len(idxs)
            dt = self.buf.dtype
            for j, x in zip(idxs, src):
                self.buf.cells[j] = _conv(x, dt)
            self.buf.writes += 1
            return
        i = self._norm(k, self.shape[0])
        self.buf.cells[self.offset + i] = _conv(v, self.buf.dtype)
        self.buf.writes += 1

    def copy(self):
        b = Buf(0, self.buf.dtype)
        b.cells = [self.buf.cells[j] for j in self._flat_idx()]
        return SArray(b, self.shape, 0)

    def flatten(self):
        c = self.copy()
        c.shape = (self.size,)
        return c

    def reshape(self, *shape):
        if len(shape) == 1 and isinstance(shape[0], (tuple, list)):
            shape = tuple(shape[0])
        n = 1
        for s in shape:
            n *= s
        if n != self.size:
            raise ValueError("cannot reshape array of size %d into shape %s" % (self.size, shape))
        return SArray(self.buf, shape, self.offset)

    def argmax(self):
        if self.ndim != 1:
            raise sx.EngineUnsupported("argmax on 2-D")
        best, bi = None, 0
        for i in range(self.shape[0]):
            v = self.buf.cells[self.offset + i]
            if best is None or v > best:      # forks when symbolic, like the comparison it models
                best, bi = v, i
        return _np.int64(bi)

    def cells(self):
        return [self.buf.cells[j] for j in self._flat_idx()]

    def fill(self, v):
        dt = self.buf.dtype
        for j in self._flat_idx():
            self.buf.cells[j] = _conv(v, dt)
        self.buf.writes += 1

    def astype(self, dtype, copy=True):
        c = self.copy()
        dt = _dt(dtype)
        c.buf.dtype = dt
        c.buf.cells = [_conv(x, dt) for x in c.buf.cells]
        return c

    def ravel(self):
        return SArray(self.buf, (self.size,), self.offset)

    def sum(self):
        tot = 0
        for x in self.cells():
            tot = tot + x
        return tot

    def any(self):
        import z3
        return sx.SymBool(z3.Or([sx.zbool(x) for x in self.cells()] or [z3.BoolVal(False)])) \
            if any(sx.is_sym(x) for x in self.cells()) else any(bool(x) for x in self.cells())

    def all(self):
        import z3
        return sx.SymBool(z3.And([sx.zbool(x) for x in self.cells()] or [z3.BoolVal(True)])) \
            if any(sx.is_sym(x) for x in self.cells()) else all(bool(x) for x in self.cells())

    def tolist(self):
        if self.ndim == 1:
            return self.cells()
        return [self[i].tolist() for i in range(self.shape[0])]

    def __iter__(self):
        for i in range(self.shape[0]):
            yield self[i]

    def __eq__(self, other):
        raise sx.EngineUnsupported("elementwise == on model arrays")

    __hash__ = None

    def __repr__(self):
        return "SArray%s" % (self.shape,)

    def __str__(self):
        if any(sx.is_sym(c) for c in self.cells()):
            # numpy's text form depends on the values (and is abbreviated above 1000 entries):
            # code that derives behaviour from str(array) - e.g. hash(str(tensor)) as a cache key -
            # cannot be followed symbolically
            raise sx.EngineUnsupported("str() of an array with symbolic cells")
        return str(to_real(self))


ndarray = SArray


def _dt(dtype):
    if dtype in (float32, int64, int16, float64, float16):
        return dtype
    if dtype is float or dtype is None:
        return float64
    if dtype is int:
        return int64
    raise sx.EngineUnsupported("dtype %r" % (dtype,))


def zeros(shape, dtype=float):
    if not isinstance(shape, (tuple, list)):
        shape = (int(shape),)
    shape = tuple(int(s) for s in shape)
    n = 1
    for s in shape:
        n *= s
    return SArray(Buf(n, _dt(dtype)), shape)


def full(shape, val, dtype=None):
    a = zeros(shape, dtype if dtype is not None else float)
    for j in range(a.size):
        a.buf.cells[j] = _conv(val, a.buf.dtype)
    return a


def copy(a):
    return a.copy()


def array(obj, dtype=None):
    if isinstance(obj, SArray):
        return obj.copy()
    if obj and isinstance(obj[0], (list, tuple)):
        a = zeros((len(obj), len(obj[0])), dtype or float)
        for i, row in enumerate(obj):
            for j, v in enumerate(row):
                a[i][j] = v
        return a
    a = zeros(len(obj), dtype or float)
    for i, v in enumerate(obj):
        a[i] = v
    return a


def array_equal(a, b):
    if not isinstance(a, SArray) or not isinstance(b, SArray):
        raise sx.EngineUnsupported("array_equal on non-model arrays")
    if a.shape != b.shape:
        return False
    r = True
    for x, y in zip(a.cells(), b.cells()):
        e = (x == y)
        if sx.is_sym(e):
            r = (sx.tobool(e) & r) if sx.is_sym(r) else sx.tobool(e)
        elif not e:
            return False
    return r


class _NoRandom:
    """any use of the global generator must go through a harness-provided stub"""

    def __getattr__(self, name):
        raise sx.EngineUnsupported("np.random.%s used without a stub" % name)


random = _NoRandom()


def to_real(a):
    """model array (all cells concrete) -> real numpy array"""
    out = _np.array([c for c in a.cells()], dtype=a.buf.dtype)
    return out.reshape(a.shape)
