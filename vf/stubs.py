"""stubs -- nondeterministic environment stubs (each one is part of the claim and is listed in the
evidence of the checks that use it)."""
import contextlib

import numpy as _real_np
import z3

from . import symex as sx
from . import npmodel


class SutException(Exception):
    """an exception raised by the code under test (as opposed to the harness)"""

    def __init__(self, exc):
        super().__init__("%s: %s" % (type(exc).__name__, exc))
        self.exc = exc


@contextlib.contextmanager
def sut():
    """wrap calls into the code under test: its exceptions are outcomes, not harness errors"""
    try:
        yield
    except Exception as e:      # Cut / EngineUnsupported / Inconclusive are BaseException
        raise SutException(e) from e


class SymRandom:
    """np.random for the modelled world: rand() is a fresh real in [0,1); draws are counted"""

    def rand(self, *shape):
        if shape:
            raise sx.EngineUnsupported("np.random.rand with a shape")
        ctx = sx.cur()
        ptr = ctx.notes.get('draw_ptr', len(ctx.draws))
        ctx.notes['draw_ptr'] = ptr + 1
        ctx.notes['draw_calls'] = ctx.notes.get('draw_calls', 0) + 1
        if ptr < len(ctx.draws):
            return ctx.draws[ptr]        # rewound stream: the same draw again
        u = sx.Real("u%d" % len(ctx.draws))
        ctx.add(u.z >= 0)
        ctx.add(u.z < 1)
        ctx.draws.append(u)
        return u

    def random(self, size=None):
        if size is not None:
            raise sx.EngineUnsupported("np.random.random with a size")
        return self.rand()

    random_sample = random

    def uniform(self, low=0.0, high=1.0, size=None):
        if size is not None:
            raise sx.EngineUnsupported("np.random.uniform with a size")
        return low + (high - low) * self.rand()

    def seed(self, s=None):
        sx.cur().stream.append(('seed', s))

    def __getattr__(self, name):
        raise sx.EngineUnsupported("np.random.%s has no stub in this harness" % name)


npmodel.random = SymRandom()


def rewind_draws(scripted=None):
    """make the next rand() calls return the same draws again (relational checks)"""
    if sx.CUR is not None:
        sx.CUR.notes['draw_ptr'] = 0
    if scripted is not None:
        scripted.calls_total = getattr(scripted, 'calls_total', 0) + scripted.calls
        scripted.calls = 0


class ScriptedRand:
    """replay side: real numpy with np.random.rand returning the model's draws"""

    def __init__(self, draws, default=0.0):
        self.draws = list(draws)
        self.default = default
        self.calls = 0
        self._orig = None

    def __enter__(self):
        self._orig = _real_np.random.rand
        me = self

        def rand(*a):
            if a:
                raise RuntimeError("scripted rand called with a shape")
            i = me.calls
            me.calls += 1
            return me.draws[i] if i < len(me.draws) else me.default
        _real_np.random.rand = rand
        self._orig_more = {k: getattr(_real_np.random, k) for k in ('random', 'random_sample', 'uniform')}
        _real_np.random.random = lambda size=None: rand()
        _real_np.random.random_sample = lambda size=None: rand()
        _real_np.random.uniform = lambda low=0.0, high=1.0, size=None: low + (high - low) * rand()
        return self

    def __exit__(self, *a):
        _real_np.random.rand = self._orig
        for k, v in self._orig_more.items():
            setattr(_real_np.random, k, v)


class BoxModel:
    """gymnasium.spaces.Box reduced to the record the properties talk about"""

    def __init__(self, low, high, shape=None, dtype=_real_np.float32, seed=None):
        self.low, self.high, self.shape, self.dtype = low, high, tuple(shape), dtype

    def contains_formula(self, cells):
        lo, hi = sx.znum(self.low), sx.znum(self.high)
        cs = []
        for c in cells:
            a, b = sx._coerce(lo, sx.znum(c))
            cs.append(a <= b)
            a, b = sx._coerce(sx.znum(c), hi)
            cs.append(a <= b)
        return z3.And(cs) if cs else z3.BoolVal(True)


class SpacesModel:
    Box = BoxModel
