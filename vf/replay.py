"""replay -- turn a solver model into an ordinary run of the real code (real numpy, no injected
name) and evaluate the violated obligation concretely.  Only what reproduces is reported."""
import json
import sys

import z3

from . import symex as sx
from . import scen, stubs, inject


def _truth(f):
    f = z3.simplify(f) if z3.is_expr(f) else z3.BoolVal(bool(f))
    if z3.is_true(f):
        return True
    if z3.is_false(f):
        return False
    # closed formula that simplify could not fold: ask the solver
    s = z3.Solver()
    s.add(z3.Not(f))
    r = s.check()
    if r == z3.unsat:
        return True
    if r == z3.sat:
        return False
    raise RuntimeError("could not evaluate closed obligation")


def confirm(mod, failure):
    """-> ('confirmed'|'unconfirmed'|'unreachable'|'error', detail)"""
    from . import hidden
    hidden.restore()
    if hasattr(mod, 'replay_confirm'):
        return mod.replay_confirm(failure)
    assert not inject._installed[0], "replay must run on the real code"
    model, q, obl = failure['model'], failure['q'], failure['obligation']
    src = scen.ConcSource(model)
    try:
        rec = mod.run(src, q)
    except stubs.SutException as e:
        if obl == 'no_exception':
            detail = dict(exception=repr(e.exc), inputs=src.used)
            return _reach(mod, None, src, q, detail)
        return 'unconfirmed', "real code raised %r but the model predicted a violated %s" % (e.exc, obl)
    if obl == 'no_exception':
        return 'unconfirmed', "real code did not raise (%s)" % failure.get('note')
    obls = dict(mod.obligations(rec))
    second = getattr(rec, 'second', None)
    if second is not None:
        obls.update({n + '@second_call': f for n, f in mod.obligations(second)})
        q = dict(q, second_call=True)
    if obl not in obls:
        return 'unconfirmed', "obligation %s not produced on the concrete path" % obl
    if _truth(obls[obl]):
        return 'unconfirmed', "obligation %s holds on the real code for the model's inputs" % obl
    detail = dict(obligation=obl, inputs=src.used)
    if hasattr(mod, 'describe'):
        try:
            detail['observed'] = mod.describe(rec)
        except Exception as e:   # description is best effort
            detail['observed'] = "describe failed: %r" % e
    return _reach(mod, rec, src, q, detail)


def _reach(mod, rec, src, q, detail):
    obl_name = (detail.get('obligation') if isinstance(detail, dict) else None) or ''
    if not getattr(mod, 'needs_reach', False) or q.get('no_reach') or \
       obl_name.split('@')[0] in getattr(mod, 'NO_REACH_OBLIGATIONS', ()):
        return 'confirmed', detail
    from . import reach
    hist = reach.find_history(src.m, q)
    if hist is None:
        return 'unreachable', detail
    detail['history_from_reset'] = hist
    return 'confirmed', detail


def match_known(known, failure, detail):
    for k in known:
        env = dict(model=failure['model'], q=failure['q'], obligation=failure['obligation'],
                   detail=detail, m=failure['model'])
        try:
            if eval(k['signature'], {'__builtins__': {}, 'str': str, 'len': len, 'any': any, 'all': all, 'int': int}, env):
                return k
        except Exception:
            continue
    return None


def main(argv):
    """vcheck replay <file>: re-run a saved counterexample against the real code"""
    import importlib
    with open(argv[0]) as f:
        payload = json.load(f)
    mod = importlib.import_module(payload['module'])
    verdict, detail = confirm(mod, dict(model=payload['model'], q=payload['query'],
                                        obligation=payload['obligation']))
    print(json.dumps(dict(verdict=verdict, detail=detail), indent=1, default=str))
    return 0 if verdict == 'confirmed' else 3


if __name__ == '__main__':
    sys.exit(main(sys.argv[1:]))
